#!/usr/bin/env python3
"""Generates /verif/mutants/own/*.diff: the harness author's own sensitivity mutants (DESIGN §9).
Each entry: name, file, old text, new text, properties expected to notice.  Patches are produced
with git diff in a scratch worktree; /repo itself is never edited."""
import subprocess, os, sys, json
BOX="/tmp/mutgen"
M=[
 # ---- schedule-only bugs (invisible on VecKind to any oracle)
 ("compose_second_coequalizer","src/strict/open_hypergraph/arrow.rs",
  "        let t = other.t.inject1(self.h.w.0.len()).compose(&q).unwrap();",
  "        let q2 = q_lhs.coequalizer(&q_rhs).expect(\"Invalid OpenHypergraph\");\n        let t = other.t.inject1(self.h.w.0.len()).compose(&q2).unwrap();",
  ["C01","C03","C04","C20"]),
 ("kahn_assumes_sorted_sparse_keys","src/strict/graph.rs",
  "    let (i, c) = g.table.sparse_bincount();\n",
  "    let (i, c) = g.table.sparse_bincount();\n    // counts \"in node order\"\n    let c = c.gather(i.argsort().get_range(..));\n",
  ["C15","C16","C17","C20"]),
 ("universal_trusts_filler","src/finite_function/arrow.rs",
  "    if f_prime.0 == *f {\n        Some(u.0)\n    } else {\n        None\n    }",
  "    let _ = f_prime;\n    Some(u.0)",
  ["C06","C09"]),
 # ---- ordinary bugs the label-multiset oracle lets through
 ("compose_legs_swapped","src/strict/open_hypergraph/arrow.rs",
  "        let s = self.s.inject0(other.h.w.0.len()).compose(&q).unwrap();\n        let t = other.t.inject1(self.h.w.0.len()).compose(&q).unwrap();",
  "        let t = self.s.inject0(other.h.w.0.len()).compose(&q).unwrap();\n        let s = other.t.inject1(self.h.w.0.len()).compose(&q).unwrap();",
  ["C01","C03"]),
 ("twist_labels_a_plus_b","src/strict/open_hypergraph/arrow.rs",
  "        let h = Hypergraph::discrete(b + a);",
  "        let h = Hypergraph::discrete(a + b);",
  ["C03","C04","C05","C12"]),
 ("dagger_keeps_source_leg","src/strict/open_hypergraph/arrow.rs",
  "            s: self.t.clone(),\n            t: self.s.clone(),\n            h: self.h.clone(),",
  "            s: self.t.clone(),\n            t: self.t.clone(),\n            h: self.h.clone(),",
  ["C04"]),
 ("spider_accepts_wrong_target_leg","src/strict/open_hypergraph/arrow.rs",
  "        if s.target() != w.len() || t.target() != w.len() {",
  "        if s.target() != w.len() {",
  ["C04"]),
 ("kahn_frontier_filter_dropped","src/strict/graph.rs",
  "        frontier = filter::<K>(\n            &frontier,\n            &unvisited.as_ref().gather(frontier.get_range(..)),\n        );",
  "",
  ["C15"]),
 ("kahn_depth_strict","src/strict/graph.rs",
  "    while !frontier.is_empty() && depth <= adjacency.len() {",
  "    while !frontier.is_empty() && depth.clone() + K::I::one() < adjacency.len() {",
  ["C15","C16","C17"]),
 ("eval_scatter_to_sources","src/strict/eval.rs",
  "        let output_indexes = f.h.t.map_indexes(&op_ix).unwrap();",
  "        let output_indexes = f.h.s.map_indexes(&op_ix).unwrap();",
  ["C16","C14","C19"]),
 ("delete_nodes_keeps_quotient_pairs","src/lax/hypergraph.rs",
  "            if let (Some(v_new), Some(w_new)) = (new_index[v.0], new_index[w.0]) {\n                quotient_left.push(NodeId(v_new));\n                quotient_right.push(NodeId(w_new));\n            }",
  "            let v_new = new_index[v.0].unwrap_or(0);\n            let w_new = new_index[w.0].unwrap_or(0);\n            quotient_left.push(NodeId(v_new));\n            quotient_right.push(NodeId(w_new));",
  ["C11","C09"]),
 ("quotient_interfaces_not_rewritten","src/lax/open_hypergraph.rs",
  "        self.targets\n            .iter_mut()\n            .for_each(|x| *x = NodeId(q.table[x.0]));\n\n        Ok(q)",
  "        Ok(q)",
  ["C09"]),
 ("convex_seeds_frontier1","src/strict/hypergraph/arrow.rs",
  "        let mut frontier1 = K::Index::empty();",
  "        let mut frontier1 = self.w.table.clone();",
  ["C18"]),
 ("monomorphism_ignores_edges","src/strict/hypergraph/arrow.rs",
  "        self.w.is_injective() && self.x.is_injective()",
  "        self.w.is_injective()",
  ["C18"]),
 ("in_degree_uses_sources","src/strict/hypergraph/object.rs",
  "        assert!(node < self.w.len(), \"node id {:?} is out of bounds\", node);\n        let counts = (self.t.values.table.as_ref() as &K::Type<K::I>).bincount(self.w.len());",
  "        assert!(node < self.w.len(), \"node id {:?} is out of bounds\", node);\n        let counts = (self.s.values.table.as_ref() as &K::Type<K::I>).bincount(self.w.len());",
  ["C17"]),
 ("var_operation_reversed_operands","src/lax/var/operators.rs",
  "    for v in vars {\n        nodes.push(v.new_target());\n    }",
  "    for v in vars.iter().rev() {\n        nodes.push(v.new_target());\n    }\n    nodes.reverse();\n    if nodes.len() == 3 { nodes.swap(0, 2); }",
  ["C19"]),
 ("forget_monogamous_no_arity_guard","src/lax/var/forget.rs",
  "        if source.len() != 1 || target.len() != 1 {\n            return OpenHypergraph::singleton(a.clone(), source.to_vec(), target.to_vec());\n        }",
  "        if source.len() > 1 || target.len() > 2 {\n            return OpenHypergraph::singleton(a.clone(), source.to_vec(), target.to_vec());\n        }",
  ["C19"]),
 ("delete_edges_dup_miscount","src/lax/hypergraph.rs",
  "            if !remove[edge_id.0] {\n                remove[edge_id.0] = true;\n                any_removed = true;\n                remove_count += 1;\n            }\n        }\n\n        if !any_removed {\n            return;\n        }\n\n        let mut edges",
  "            remove[edge_id.0] = !remove[edge_id.0] || edge_ids.len() < 3;\n            any_removed = true;\n            remove_count = remove_count.saturating_add(0);\n        }\n\n        if !any_removed {\n            return;\n        }\n\n        let mut edges",
  ["C11"]),
 ("ffnew_accepts_equal_target","src/finite_function/arrow.rs",
  "        if let Some(true) = table.max().map(|m| m >= target) {",
  "        if let Some(true) = table.max().map(|m| m > target) {",
  ["C05"]),
 ("hypergraph_validate_skips_targets_set","src/strict/hypergraph/object.rs",
  "        if n_t != n_w {\n            return Err(InvalidHypergraph::TargetsSet(n_t, n_w));\n        }",
  "        if n_t > n_w {\n            return Err(InvalidHypergraph::TargetsSet(n_t, n_w));\n        }",
  ["C05"]),
 ("functor_uses_target_leg_twice","src/strict/functor/traits.rs",
  "        let fs = map_half_spider(&fw, &f.s);",
  "        let fs = map_half_spider(&fw, &f.t);\n        let fs = if f.s.source() == f.t.source() { fs } else { map_half_spider(&fw, &f.s) };",
  ["C12","C14"]),
 # ---- the four repaired defects, reverted
 ("revert_D1","src/strict/graph.rs","    let target = reached.table.len() + K::I::one();","    let target = adjacency.len() + K::I::one();",["C15","C16","C17"]),
 ("revert_D2","src/strict/open_hypergraph/arrow.rs","        in_degrees + in_counts == ones && out_degrees + out_counts == ones","        (in_degrees + in_counts - ones.clone()).zero().len() == ones.len()\n            && (out_degrees + out_counts - ones).zero().len() == self.h.w.len()",["C17"]),
 ("revert_D3","src/lax/hypergraph.rs","                self.nodes = nodes.0;\n                return Err(q);","                return Err(q);",["C09"]),
 ("revert_D4","src/lax/var/forget.rs","    let mut xs = a.iter().chain(b.iter());\n    match xs.next() {\n        Some(first) => xs.all(|x| x == first),\n        None => true,\n    }","    a.iter().chain(b.iter()).all(|x| *x == *a.first().unwrap_or(x))",["C19"]),
]
def sh(*a, **k): return subprocess.run(a, capture_output=True, text=True, **k)
def main():
    out=os.path.join(os.path.dirname(os.path.dirname(os.path.abspath(__file__))),"mutants","own")
    os.makedirs(out,exist_ok=True)
    sh("git","-C","/repo","worktree","prune")
    if not os.path.exists(BOX): 
        r=sh("git","-C","/repo","worktree","add","--detach","-f",BOX,"HEAD"); 
        if r.returncode: print(r.stderr); sys.exit(2)
    sh("git","-C",BOX,"checkout","-q","--detach",sh("git","-C","/repo","rev-parse","HEAD").stdout.strip())
    index=[]
    for name,f,old,new,exp in M:
        sh("git","-C",BOX,"checkout","-q","--",".")
        p=os.path.join(BOX,f); s=open(p).read()
        if s.count(old)!=1:
            print("SKIP",name,"old text occurs",s.count(old),"times"); continue
        open(p,"w").write(s.replace(old,new))
        d=sh("git","-C",BOX,"diff","--","src/").stdout
        open(os.path.join(out,name+".diff"),"w").write(d)
        index.append({"name":name,"file":f,"expected":exp})
    sh("git","-C",BOX,"checkout","-q","--",".")
    json.dump(index,open(os.path.join(out,"index.json"),"w"),indent=1)
    print(len(index),"mutants written to",out)
    sh("git","-C","/repo","worktree","remove","--force",BOX)
main()
