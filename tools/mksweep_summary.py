#!/usr/bin/env python3
"""Prints the markdown for DESIGN.md §15.4 from mutants/sweep/results.jsonl and mutants/sweep/triage.json."""
import json, os, collections
HERE = os.path.dirname(os.path.dirname(os.path.abspath(__file__)))
R = [json.loads(l) for l in open(os.path.join(HERE, 'mutants/sweep/results.jsonl'))]
T = json.load(open(os.path.join(HERE, 'mutants/sweep/triage.json'))) if os.path.exists(os.path.join(HERE, 'mutants/sweep/triage.json')) else {}
st = collections.Counter(r['stage'] for r in R)
surv = [r for r in R if r['stage'] == 'survives-suite']
caught = [r for r in surv if r.get('caught_by')]
missed = [r for r in surv if not r.get('caught_by')]
errs = [r for r in surv if r.get('harness_errors')]
print(f"Sampled mutants: {len(R)}; do not compile: {st['no-compile']}; killed by the pinned suite: {st['suite-kills']}; "
      f"survive the pinned suite: {len(surv)} (simulator build failed: {st.get('sim-build-failed', 0)}).")
print(f"Of the {len(surv)} suite survivors, {len(caught)} are reported by at least one check (release profile, quick tier); "
      f"{len(missed)} leave all 15 checks silent; harness errors (exit 2): {len(errs)}.\n")
by = collections.Counter()
for r in caught:
    for c in r['caught_by']:
        by[c] += 1
print("Reports per check over the caught survivors: " + ", ".join(f"{k} {v}" for k, v in sorted(by.items())) + ".\n")
print("| mutant | site | change | verdict for the silent ones |")
print("|---|---|---|---|")
for r in missed:
    t = T.get(r['id'], {})
    after = f" → later caught by {t['now_caught_by']}" if t.get('now_caught_by') else ''
    print(f"| {r['id']} | {r['file']}:{r['line']} | `{r['old'][:70]}` → `{r['new'][:70]}` | {t.get('class', 'UNTRIAGED')}: {t.get('why', '')}{after} |")
