#!/bin/bash
# tools/seed_pipeline.sh <ID> <A|B> [cargo feature flags for the demo]
# Takes a sub-agent's deliverable from /tmp/wt-<ID>/seeded/<A|B>, confirms it in a scratch worktree
# (tools/confirm_seed.sh), files it under /verif/seeded/<ID>-<A|B>/ and runs every check against it
# in the scratch copy (tools/try_patch.sh).  Writes meta.json.  /repo is never touched.
set -u
ID="$1"; V="$2"; FEAT="${3:-}"
SRC="/tmp/wt-$ID/${SRC_SUB:-seeded}/$V"
TAG="${TAG:-}"
DST="/verif/seeded/$ID-$TAG$V"
[ -f "$SRC/patch.diff" ] || { echo "no deliverable at $SRC"; exit 2; }
mkdir -p "$DST"
cp "$SRC/patch.diff" "$DST/patch.diff"; cp "$SRC/demo.rs" "$DST/demo.rs"; cp "$SRC/NOTES.md" "$DST/NOTES.md" 2>/dev/null
conf="$(/verif/tools/confirm_seed.sh "$DST" "$FEAT" 2>&1 | grep -E '^RESULT')"
ALL="C01 C03 C04 C05 C06 C09 C11 C12 C14 C15 C16 C17 C18 C19 C20"
res="$(PROFILES="rel" /verif/tools/try_patch.sh "$DST/patch.diff" $ALL 2>&1)"
resd="$(PROFILES="dbg" /verif/tools/try_patch.sh "$DST/patch.diff" $ID 2>&1)"
caught="$(echo "$res" | grep -E '^== ' | awk '$4 ~ /exit=1/ {printf "%s ", $2}')"
caughtd="$(echo "$resd" | grep -E '^== ' | awk '$4 ~ /exit=1/ {printf "%s ", $2}')"
errs="$(echo "$res$resd" | grep -E '^== ' | awk '$4 ~ /exit=2/ {printf "%s ", $2}')"
own="$(echo "$res" | grep -E "^== $ID " | cut -c1-400)"
python3 - "$ID" "$TAG$V" "$conf" "$caught" "$caughtd" "$errs" "$own" "$FEAT" <<'PY'
import json,sys,os
ID,V,conf,caught,caughtd,errs,own,feat=sys.argv[1:9]
d=f"/verif/seeded/{ID}-{V}"
notes=open(os.path.join(d,"NOTES.md")).read() if os.path.exists(os.path.join(d,"NOTES.md")) else ""
meta={"property":ID,"variant":V,"origin":"independent sub-agent given only the property record and a scratch worktree (nothing from /verif)",
 "confirmed_by_me":conf,"demo_features":feat,
 "needs_to_manifest":"see NOTES.md (written by the sub-agent)",
 "what_i_ran":["tools/confirm_seed.sh (scratch worktree: suite with patch, demo with patch, demo without patch)","tools/try_patch.sh patch.diff <all 15 checks> (release profile, quick tier) and <own check> (debug profile)"],
 "checks_that_caught_it_rel":caught.split(),"own_check_caught_it_dbg":caughtd.split(),"harness_errors":errs.split(),"own_check_line":own}
json.dump(meta,open(os.path.join(d,"meta.json"),"w"),indent=1)
print(f"{ID}-{V}\t{conf}\tcaught_rel=[{caught}]\tcaught_dbg_own=[{caughtd}]\terr=[{errs}]")
PY
