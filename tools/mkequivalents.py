#!/usr/bin/env python3
"""Generates /verif/mutants/equivalent/*.diff: changes to /repo that PRESERVE every claimed property
(legitimate refactorings, or other legal resolutions of the open backend choices inside VecKind).
Every check must stay silent on each of them: the false-alarm side of the sensitivity study."""
import subprocess, os, sys, json
BOX="/tmp/mutgen"
M=[
 ("vec_argsort_unstable_reverse_ties","src/array/vec/vec_array.rs",
  "        indices.sort_by_key(|&i| &self[i]);",
  "        // ties in descending index order (any sorting permutation conforms)\n        indices.reverse();\n        indices.sort_by_key(|&i| &self[i]);"),
 ("vec_components_numbered_in_reverse","src/array/vec/vec_array.rs",
  "        let (cc_ix, c) = connected_components(sources, targets, n);\n        (VecArray(cc_ix), c)",
  "        let (cc_ix, c) = connected_components(sources, targets, n);\n        // any dense numbering of the components conforms\n        (VecArray(cc_ix.into_iter().map(|x| c - 1 - x).collect()), c)"),
 ("vec_sparse_bincount_descending_keys","src/array/vec/vec_array.rs",
  "        unique_indices.sort_unstable();",
  "        unique_indices.sort_unstable();\n        unique_indices.reverse(); // any key order conforms"),
 ("vec_scatter_filler_last_element","src/array/vec/vec_array.rs",
  "        let mut y = vec![self[0].clone(); n];",
  "        let mut y = vec![self[self.len() - 1].clone(); n];"),
 ("layered_operations_drops_trailing_empty_groups","src/strict/layer.rs",
  "    (converse_iter(order).collect(), unvisited.into())",
  "    let mut groups: Vec<K::Index> = converse_iter(order).collect();\n    while groups.last().map_or(false, |g| g.is_empty()) {\n        groups.pop();\n    }\n    (groups, unvisited.into())"),
 ("arrow_validate_checks_edge_labels_first","src/strict/hypergraph/arrow.rs",
  "        let composed_w = (&self.w >> &h.w).ok_or(InvalidHypergraphArrow::TypeMismatchW)?;\n        if g.w != composed_w {\n            return Err(InvalidHypergraphArrow::NotNaturalW);\n        }\n",
  "        let composed_x0 = (&self.x >> &h.x).ok_or(InvalidHypergraphArrow::TypeMismatchX)?;\n        if g.x != composed_x0 {\n            return Err(InvalidHypergraphArrow::NotNaturalX);\n        }\n        let composed_w = (&self.w >> &h.w).ok_or(InvalidHypergraphArrow::TypeMismatchW)?;\n        if g.w != composed_w {\n            return Err(InvalidHypergraphArrow::NotNaturalW);\n        }\n"),
 ("compose_body_before_legs","src/strict/open_hypergraph/arrow.rs",
  "        let s = self.s.inject0(other.h.w.0.len()).compose(&q).unwrap();\n        let t = other.t.inject1(self.h.w.0.len()).compose(&q).unwrap();\n\n        // Tensor self and other, then unify wires on the boundaries.\n        // NOTE: this should never fail for a valid open hypergraph\n        let h = self.tensor(other).h.coequalize_vertices(&q).unwrap();\n",
  "        // Tensor self and other, then unify wires on the boundaries.\n        let h = (&self.h + &other.h).coequalize_vertices(&q).unwrap();\n        let t = other.t.inject1(self.h.w.0.len()).compose(&q).unwrap();\n        let s = self.s.inject0(other.h.w.0.len()).compose(&q).unwrap();\n"),
 ("is_monogamous_reordered_checks","src/strict/open_hypergraph/arrow.rs",
  "        in_degrees + in_counts == ones && out_degrees + out_counts == ones",
  "        let outs_ok = out_degrees + out_counts == ones;\n        let ins_ok = in_degrees + in_counts == ones;\n        outs_ok && ins_ok"),
 ("forget_label_from_targets_first","src/lax/var/forget.rs",
  "                if source.is_empty() {\n                    target[0].clone()\n                } else {\n                    source[0].clone()\n                }\n            };\n\n            let s = FiniteFunction::terminal(source.len());\n            let t = FiniteFunction::terminal(target.len());\n\n            return OpenHypergraph::<O, A>::spider(s, t, vec![label]).unwrap();\n        }\n        OpenHypergraph::singleton(a.clone(), source.to_vec(), target.to_vec())\n    }\n\n    fn map_arrow(&self, f: &OpenHypergraph<O, A>) -> OpenHypergraph<O, A> {\n        dyn_functor::define_map_arrow(self, f)\n    }\n}\n\n// Are all",
  "                if target.is_empty() {\n                    source[0].clone()\n                } else {\n                    target[0].clone()\n                }\n            };\n\n            let s = FiniteFunction::terminal(source.len());\n            let t = FiniteFunction::terminal(target.len());\n\n            return OpenHypergraph::<O, A>::spider(s, t, vec![label]).unwrap();\n        }\n        OpenHypergraph::singleton(a.clone(), source.to_vec(), target.to_vec())\n    }\n\n    fn map_arrow(&self, f: &OpenHypergraph<O, A>) -> OpenHypergraph<O, A> {\n        dyn_functor::define_map_arrow(self, f)\n    }\n}\n\n// Are all"),
 ("delete_nodes_via_retain","src/lax/hypergraph.rs",
  "        let mut new_index = vec![None; node_count];\n        let mut nodes = Vec::with_capacity(node_count - remove_count);\n        for (i, node) in self.nodes.drain(..).enumerate() {\n            if !remove[i] {\n                let next = nodes.len();\n                new_index[i] = Some(next);\n                nodes.push(node);\n            }\n        }\n        self.nodes = nodes;",
  "        let mut new_index = vec![None; node_count];\n        let mut next = 0;\n        for i in 0..node_count {\n            if !remove[i] {\n                new_index[i] = Some(next);\n                next += 1;\n            }\n        }\n        debug_assert_eq!(next, node_count - remove_count);\n        let mut i = 0;\n        self.nodes.retain(|_| {\n            let keep = !remove[i];\n            i += 1;\n            keep\n        });"),
 ("lax_tensor_via_tensor_assign","src/lax/open_hypergraph.rs",
  "        let hypergraph = Hypergraph::coproduct(&self.hypergraph, &other.hypergraph);\n\n        // renumber all nodes\n        let n = self.hypergraph.nodes.len();\n\n        let sources = self\n            .sources\n            .iter()\n            .cloned()\n            .chain(other.sources.iter().map(|&i| NodeId(i.0 + n)))\n            .collect();\n\n        let targets = self\n            .targets\n            .iter()\n            .cloned()\n            .chain(other.targets.iter().map(|&i| NodeId(i.0 + n)))\n            .collect();\n\n        OpenHypergraph {\n            sources,\n            targets,\n            hypergraph,\n        }",
  "        let mut result = self.clone();\n        result.tensor_assign(other.clone());\n        result"),
 ("kahn_marks_visited_after_relative_indegree","src/strict/graph.rs",
  "        unvisited.scatter_assign_constant(&frontier, K::I::zero());\n        // Set the order of nodes in the frontier to the current depth.\n        // order[frontier] = depth;\n        order.scatter_assign_constant(&frontier, depth.clone());\n",
  "        // Set the order of nodes in the frontier to the current depth.\n        // order[frontier] = depth;\n        order.scatter_assign_constant(&frontier, depth.clone());\n        unvisited.scatter_assign_constant(&frontier, K::I::zero());\n"),
 ("eval_gathers_outputs_through_finite_function","src/strict/eval.rs",
  "    let outputs = mem.0.gather(f.t.table.get_range(..));\n    (mem.0, outputs)",
  "    let outputs = (&f.t >> &mem).unwrap().0;\n    (mem.0, outputs)"),

 ("strict_twist_with_twisted_target_leg","src/strict/open_hypergraph/arrow.rs",
  "        let s = FiniteFunction::twist(a.len(), b.len());\n        let t = FiniteFunction::identity(a.len() + b.len());\n\n        // NOTE: because the *source* map is twist, the internal labelling of wires\n        // is `b + a` instead of `a + b`. This matters!\n        let h = Hypergraph::discrete(b + a);",
  "        // the other (isomorphic) presentation: wires labelled a + b, the *target* leg permutes\n        let s = FiniteFunction::identity(a.len() + b.len());\n        let t = FiniteFunction::twist(b.len(), a.len());\n        let h = Hypergraph::discrete(a + b);"),
 ("lax_quotient_fast_path_without_pending_pairs","src/lax/hypergraph.rs",
  "        use std::mem::take;\n        let q = self.coequalizer();\n",
  "        use std::mem::take;\n        if self.quotient.0.is_empty() {\n            // nothing pending: the quotient map is the identity and nothing changes\n            return Ok(<FiniteFunction<VecKind> as crate::category::Arrow>::identity(self.nodes.len()));\n        }\n        let q = self.coequalizer();\n"),
 ("kahn_unvisited_keep_last_layer_number","src/strict/graph.rs",
  "    let mut order: K::Type<K::I> = K::Type::<K::I>::fill(K::I::zero(), adjacency.len());",
  "    // operations that are never visited keep the largest legal layer number instead of 0\n    let filler = if adjacency.len() == K::I::zero() { K::I::zero() } else { adjacency.len() - K::I::one() };\n    let mut order: K::Type<K::I> = K::Type::<K::I>::fill(filler, adjacency.len());"),
 ("lax_delete_edges_via_retain","src/lax/hypergraph.rs",
  "        let mut edges = Vec::with_capacity(edge_count - remove_count);\n        let mut adjacency = Vec::with_capacity(edge_count - remove_count);\n        for (i, (edge, adj)) in self\n            .edges\n            .drain(..)\n            .zip(self.adjacency.drain(..))\n            .enumerate()\n        {\n            if !remove[i] {\n                edges.push(edge);\n                adjacency.push(adj);\n            }\n        }\n\n        self.edges = edges;\n        self.adjacency = adjacency;",
  "        let _ = remove_count;\n        let mut i = 0;\n        self.edges.retain(|_| {\n            let keep = !remove[i];\n            i += 1;\n            keep\n        });\n        let mut j = 0;\n        self.adjacency.retain(|_| {\n            let keep = !remove[j];\n            j += 1;\n            keep\n        });"),
 ("functor_composes_right_to_left","src/strict/functor/traits.rs",
  "    sx.compose(&i.tensor(&fx)).unwrap().compose(&yt).unwrap()",
  "    sx.compose(&i.tensor(&fx).compose(&yt).unwrap()).unwrap()"),
 ("open_quotient_rewrites_interfaces_with_map","src/lax/open_hypergraph.rs",
  "        self.sources\n            .iter_mut()\n            .for_each(|x| *x = NodeId(q.table[x.0]));\n        self.targets\n            .iter_mut()\n            .for_each(|x| *x = NodeId(q.table[x.0]));",
  "        self.sources = self.sources.iter().map(|x| NodeId(q.table[x.0])).collect();\n        self.targets = self.targets.iter().map(|x| NodeId(q.table[x.0])).collect();"),
 ("dagger_via_new","src/strict/open_hypergraph/arrow.rs",
  "        OpenHypergraph {\n            s: self.t.clone(),\n            t: self.s.clone(),\n            h: self.h.clone(),\n        }\n    }\n\n    fn spider(",
  "        match OpenHypergraph::new(self.t.clone(), self.s.clone(), self.h.clone()) {\n            Ok(d) => d,\n            Err(_) => panic!(\"dagger of a valid diagram is valid\"),\n        }\n    }\n\n    fn spider("),
 ("var_build_targets_before_sources","src/lax/var/var.rs",
  "        state.borrow_mut().sources = s.iter().map(|x| x.new_source()).collect();\n        state.borrow_mut().targets = t.iter().map(|x| x.new_target()).collect();",
  "        let targets: Vec<NodeId> = t.iter().map(|x| x.new_target()).collect();\n        let sources: Vec<NodeId> = s.iter().map(|x| x.new_source()).collect();\n        state.borrow_mut().sources = sources;\n        state.borrow_mut().targets = targets;"),
]
def sh(*a, **k): return subprocess.run(a, capture_output=True, text=True, **k)
def main():
    out=os.path.join(os.path.dirname(os.path.dirname(os.path.abspath(__file__))),"mutants","equivalent")
    os.makedirs(out,exist_ok=True)
    sh("git","-C","/repo","worktree","prune")
    if not os.path.exists(BOX):
        r=sh("git","-C","/repo","worktree","add","--detach","-f",BOX,"HEAD")
        if r.returncode: print(r.stderr); sys.exit(2)
    n=0
    for name,f,old,new in M:
        sh("git","-C",BOX,"checkout","-q","--",".")
        p=os.path.join(BOX,f); s=open(p).read()
        if s.count(old)!=1:
            print("SKIP",name,"old text occurs",s.count(old),"times"); continue
        open(p,"w").write(s.replace(old,new))
        open(os.path.join(out,name+".diff"),"w").write(sh("git","-C",BOX,"diff","--","src/").stdout); n+=1
    sh("git","-C",BOX,"checkout","-q","--",".")
    sh("git","-C","/repo","worktree","remove","--force",BOX)
    print(n,"property-preserving changes written to",out)
main()
