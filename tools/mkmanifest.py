#!/usr/bin/env python3
"""Regenerates /verif/MANIFEST.json from the table below (and validates it against the schema)."""
import json, os, sys
HERE = os.path.dirname(os.path.dirname(os.path.abspath(__file__)))

S1 = "seeded search over (workload, device schedule) runs on a simulated array backend (SimKind) whose four open outcomes are decided by a PRNG scheduler; oracle = reference model on plain lists + isomorphism decision; control (VecLike) and VecKind configurations run separately from perturbed ones"
CLAIMED = {
 "C01": dict(tech="deterministic simulation: seeded schedule search over the array-backend seam (SimKind), refinement against a reference gluing up to isomorphism, minimised replay",
             text="Exploration by deterministic simulation: ~1.7M (quick) / ~34M (thorough) seeded runs, each composing a generated pair on the simulated device under control, Vec and 1-4 perturbed schedules and comparing the result up to isomorphism with an independently computed pushout; plus stress cases (boundaries of 10^5..10^6 wires collapsing along one chain) run in child processes so that an abort of the library is reported as a violation. A clean batch is evidence, not proof; this is the right level because the property quantifies over all pairs and (through C20) all conforming backends, which only sampling reaches here.",
             ref="§5 C01"),
 "C03": dict(tech="deterministic simulation: both sides of each SMC law computed under seeded device schedules (SimKind), compared by an isomorphism decision procedure",
             text="Exploration by deterministic simulation: seeded runs, each evaluating associativity, units, interchange, naturality / self-inverse of the symmetry and both hexagons on a generated composable triple + pair + object lists, on control, Vec and perturbed device schedules; the two sides of a law are different computations whose numberings differ under perturbed schedules, and are compared up to isomorphism. Evidence, not proof.",
             ref="§5 C03"),
 "C04": dict(tech="deterministic simulation: dagger/spider laws under seeded device schedules (SimKind) against reference cospan composition; corrupted leg codomains as data faults at the constructor",
             text="Exploration by deterministic simulation: dagger (exact swap, involution, contravariance, over tensor), spider fusion against reference cospan composition, identity/symmetry as spiders, spider/half_spider acceptance under corrupted leg codomains; strict versions on control, Vec and perturbed schedules, lax versions on the Vec device. Evidence, not proof.",
             ref="§5 C04"),
 "C09": dict(tech="deterministic simulation: generated operation histories on the lax builder against a list model, with the failing operation (label-conflict quotient) as injected fault, repair-and-retry, restart through a simulated disk, fork",
             text="Exploration by deterministic simulation of histories: ~1.3M (quick) / ~27M (thorough) seeded histories of builder steps interleaved with unifications and quotient calls on a real lax (open) hypergraph, compared field by field with a list model after every step; quotient results are validated as surjections with exactly the union-find classes as fibres, failed quotients must leave the diagram equal to the pre-call clone, a second quotient must be the identity; stress cases (chains of 2*10^5..6*10^5 unified nodes) run in child processes. Evidence, not proof.",
             ref="§5 C09"),
 "C11": dict(tech="deterministic simulation: generated builder histories against a list model, rejected out-of-range deletions, restart = serde_json through a simulated disk with short writes/reads and EINTR, fork",
             text="Exploration by deterministic simulation of histories: ~1.1M (quick) / ~22M (thorough) seeded histories of builder calls (incl. deletions with duplicate and out-of-range identifiers, relabelling with right/wrong lengths) on a real lax (open) hypergraph, refinement against a list model after every step, identifiers and renumbering maps compared, JSON restart through a simulated disk and documented field names. Evidence, not proof.",
             ref="§5 C11"),
 "C15": dict(tech="deterministic simulation: layering under seeded device schedules (sort ties, sparse key order) with a kernel-launch watchdog for bounded liveness; oracle = reference dependency graph",
             text="Exploration by deterministic simulation: layer() and layered_operations() on dense, layered and cyclic generated diagrams under control, Vec and perturbed schedules; every call must return within a launch budget (logical clock) and without panic; layers are checked against a reference dependency graph (visited flags, strict increase, from 0, as many layers as the longest chain, grouped form exactly once). Evidence, not proof.",
             ref="§5 C15"),
 "C16": dict(tech="deterministic simulation: evaluation with a simulator-owned apply callback (recorded batch history, exactly-once and order checks), seeded device schedules and renumberings; oracle = reference interpreter",
             text="Exploration by deterministic simulation: generated single-writer acyclic circuits (and cyclic diagrams for refusal) evaluated under renumberings x device schedules x inputs; the simulator owns the callback party and checks the recorded history (every hyperedge once, right arguments, dependency-respecting batches) besides the result. Evidence, not proof.",
             ref="§5 C16"),
 "C17": dict(tech="deterministic simulation: predicates under seeded device schedules in two build profiles (debug assertions/overflow checks on and off), panic = violation, launch watchdog; oracle = DFS and counting",
             text="Exploration by deterministic simulation: is_acyclic, is_monogamous, in/out degree on generated diagrams incl. isolated/dangling nodes, repeated incidences and parallel connections, on control, Vec and perturbed schedules, in both build profiles; totality (no panic, returns within budget) and equality with DFS / counting definitions. Evidence, not proof.",
             ref="§5 C17"),
 "C18": dict(tech="deterministic simulation: morphism validation / convexity under seeded device schedules; one data corruption per run at the validation boundary; oracle = brute-force definitions",
             text="Exploration by deterministic simulation: valid morphisms built by construction, half of them with exactly one corruption (label, incidence order, map entry, mistyped map), decided by HypergraphArrow::new / is_monomorphism / is_convex_subgraph on control, Vec and perturbed schedules, against brute-force definitions (accept iff all conditions hold, named condition really fails, convexity via reflexive-transitive closure). Evidence, not proof.",
             ref="§5 C18"),
 "C19": dict(tech="deterministic simulation: Var builder machine (shared Rc<RefCell> state, scheduler-chosen linear extensions of builder steps, handle clone/drop/leak as steps, invariants after every step) + forget on generated lax terms; oracle = direct evaluation, reference interpreter, reference forgetting up to isomorphism",
             text="Exploration by deterministic simulation: expression DAGs built through var::build under several scheduler-chosen linear extensions with builder invariants checked on the shared state after each step, leaked handles as injected fault (Err + state handed back), and forget/forget_monogamous on arbitrary lax terms with variable hyperedges of any arity and label mix; meaning compared with direct evaluation through strict::eval and a reference interpreter. Evidence, not proof.",
             ref="§5 C19"),
 "C12": dict(tech="deterministic simulation: harness-owned functor (second party) applied under seeded device schedules (SimKind); refinement against reference generator-wise substitution up to isomorphism",
             text="Exploration by deterministic simulation: harness-defined functors (object images of length 0..3, operation images single / composite / spider-only / empty) applied through strict::Functor generic in the device on control, Vec and perturbed schedules, through the lax trait via dyn_functor (also with images and argument that still carry pending unifications) and through the native lax entry points try_define_map_arrow / map_arrow_witness; results compared up to isomorphism with substitution on the plain model; functoriality instances and the identity functor. Evidence, not proof.",
             ref="§5 C12"),
 "C14": dict(tech="deterministic simulation: harness-owned optics under seeded device schedules; oracle = reference lens substitution and re-bending up to isomorphism, and evaluation of adapted reverse-derivative optics against reference reverse accumulation",
             text="Exploration by deterministic simulation: generated optics (forward/reverse object maps, residuals empty/single/multiple) checked against a reference substitution of lens diagrams (typing, composition, tensor, adapt), and the reverse-derivative lenses of polynomial circuits evaluated through strict::eval on (x, dy) against reference reverse-mode differentiation over Z/2^64, strict (all device configurations) and lax (Vec) entry points. Evidence, not proof.",
             ref="§5 C14"),
 "C05": dict(tech="deterministic simulation: pool machine (long random operation sequences on a pool of diagrams under seeded device schedules, deep well-formedness + promised type + refinement against reference twins after every step) and single-datum corruption faults at the checked constructors",
             text="Exploration by deterministic simulation: the standing invariant of the simulator (deep well-formedness from raw fields and the promised type after every library call) run as its own check on a pool machine of up to 30/40 operations per run under control, Vec and perturbed schedules (compose, tensor, dagger, identities, symmetries, spiders, singleton, operation batches, functor and optic application, round trips; and the same sequence through the lax public API on the Vec device), each result also refined against its plain reference twin and typed as promised (also through the Arrow trait; where an inherent method shadows a trait method both are called); plus raw parts with at most one datum flipped handed to every checked constructor, which must accept iff the documented condition holds. Evidence, not proof.",
             ref="§5 C05"),
 "C06": dict(tech="deterministic simulation: coequalizer under seeded component numberings and universal map under seeded scatter fillers (SimKind), partition equality against a reference union-find; remaining clauses on two devices as control",
             text="Exploration by deterministic simulation: coequalizers must be surjections whose fibres are exactly the generated classes under every component numbering, universal maps must exist, be returned and factor iff the map is constant on fibres (None, not a panic, otherwise) under every scatter filler; the clauses that consume no device choice are evaluated on both devices against functions-as-Vec and reported as control; stress cases (chains, stars, random graphs on 3*10^5..10^6 elements) run in child processes. Evidence, not proof.",
             ref="§5 C06"),
 "C20": dict(tech="deterministic simulation: every listed strict operation on VecKind, on the simulated device's control schedule and under >= 8 perturbed schedules (each open choice alone, fixed adversarial policies, random); results compared with Vec's up to isomorphism / identically",
             text="Exploration by deterministic simulation, the property being the simulation itself: composition, tensor, functor and optic application, layering, evaluation, structural predicates and morphism tests run on the shipped backend and on an independently implemented conforming backend whose four open outcomes are decided adversarially; diagram results must be isomorphic to Vec's, everything else identical, layerings valid on each schedule. Evidence, not proof: one alternative backend family, small inputs.",
             ref="§5 C20"),
}
NOTE = "Trusted: the harness's plain model, reference operations and isomorphism procedure (cross-checked by selftest), and that SimKind's outcome sets cover the four documented open choices. Sizes are small (<= ~10 nodes)."

NA = {
 "C02": "pure function of its arguments: strict tensor is concatenation and index offsetting, lax tensor is Vec appends; consumes no open device choice, keeps no state, no fault or schedule for a simulator to decide (DESIGN §6)",
 "C07": "statements about the pure VecArray primitives themselves; the simulator replaces this layer (SimKind) rather than exercising it; no schedule, clock, fault or history in it (DESIGN §6)",
 "C08": "segmented-array operations are built only from deterministic primitives (cumulative_sum, repeat, gather, arange); pure, no open choice consumed, no state (DESIGN §6)",
 "C10": "lax module is hard-wired to the deterministic VecKind; conversions and in-place variants are pure single-step functions; exact round trips are properties of the shipped deterministic device, so making it adversarial would be wrong (DESIGN §6)",
 "C13": "native lax functor path is Vec-only and pure, callbacks are invoked in a fixed order; nothing for a scheduler or fault injector to decide (DESIGN §6)",
}
PENDING = {}

def main():
    props = [json.loads(l) for l in open(os.path.join(HERE, "properties.jsonl"))]
    ids = [p["id"] for p in props]
    checks = []
    for i in ids:
        if i in CLAIMED:
            c = CLAIMED[i]
            checks.append({
                "property_id": i,
                "quick_cmd": f"./check {i} --tier quick",
                "thorough_cmd": f"./check {i} --tier thorough",
                "evidence_file": f"/verif/evidence/{i}.json",
                "replay_cmd_template": "./check --replay {path}",
                "engine": "ohsim",
                "level_claimed": {"category": "exploration", "text": c["text"], "design_ref": c["ref"]},
                "level_note": c.get("note", NOTE),
                "technique": c["tech"],
            })
    na = []
    for i in ids:
        if i in CLAIMED: continue
        if i in NA: na.append({"property_id": i, "reason": NA[i]})
        else: na.append({"property_id": i, "reason": PENDING.get(i, "check not built yet in this session (simulation target per DESIGN §5; will be claimed when its check exists)")})
    m = {
        "version": 1,
        "setup_cmd": "./check --build",
        "hooks": {
            "guard": "ohg_verif",
            "enable": "no hooks: the seam (trait ArrayKind) is public API, the harness implements a second backend outside /repo; the guard name is reserved and unused",
            "baseline_off_cmd": "cd /repo && cargo test --workspace --no-fail-fast --offline",
            "source_commits": [],
            "add_only": True,
        },
        "engines": [{"name": "ohsim", "path": "/verif/sim", "serves_properties": sorted(CLAIMED), "kind_free_text": "deterministic simulator: seeded scheduler over the ArrayKind seam (SimKind device), lax history machine, Var builder machine; replay + minimisation"}],
        "checks": checks,
        "not_applicable": na,
        "notes": "All checks: exit 0 held, exit 1 + 'VIOLATION property=<id> replay=<path>', exit 2 harness error. VERIF_SEED (default 1) decides every run. Both build profiles (debug-assertions on/off) are run by every check.",
    }
    path = os.path.join(HERE, "MANIFEST.json")
    json.dump(m, open(path, "w"), indent=1)
    try:
        import jsonschema
        jsonschema.validate(m, json.load(open("/root/.vp/MANIFEST.schema.json")))
        print("MANIFEST.json valid;", len(checks), "checks,", len(na), "not claimed")
    except ImportError:
        print("MANIFEST.json written (jsonschema not importable here)")

if __name__ == "__main__":
    main()
