#!/bin/bash
# tools/recheck_seeds.sh [seed dir names...] — re-run all checks (release, quick) plus the own check in the
# debug profile against every filed seeded change with the *committed* simulator; updates meta.json.
set -u
cd /verif/seeded
LIST="${*:-$(ls)}"
ALL="C01 C03 C04 C05 C06 C09 C11 C12 C14 C15 C16 C17 C18 C19 C20"
for d in $LIST; do
  [ -f "$d/patch.diff" ] || continue
  ID="${d%%-*}"
  res="$(PROFILES=rel /verif/tools/try_patch.sh "/verif/seeded/$d/patch.diff" $ALL 2>&1)"
  resd="$(PROFILES=dbg /verif/tools/try_patch.sh "/verif/seeded/$d/patch.diff" $ID 2>&1)"
  caught="$(echo "$res" | grep -E '^== ' | awk '$4 ~ /exit=1/ {printf "%s ", $2}')"
  caughtd="$(echo "$resd" | grep -E '^== ' | awk '$4 ~ /exit=1/ {printf "%s ", $2}')"
  errs="$(echo "$res$resd" | grep -E '^== ' | awk '$4 ~ /exit=2/ {printf "%s ", $2}')"
  python3 - "$d" "$caught" "$caughtd" "$errs" "$(git -C /verif rev-parse --short HEAD)" <<'PY'
import json,sys
d,caught,caughtd,errs,head=sys.argv[1:6]
p=f"/verif/seeded/{d}/meta.json"
m=json.load(open(p))
m["checks_that_caught_it_rel"]=caught.split(); m["own_check_caught_it_dbg"]=caughtd.split(); m["harness_errors"]=errs.split()
m["rechecked_at_verif_commit"]=head
json.dump(m,open(p,"w"),indent=1)
print(f"{d}\tcaught_rel=[{caught}]\tcaught_dbg_own=[{caughtd}]\terr=[{errs}]")
PY
done
