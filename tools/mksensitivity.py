#!/usr/bin/env python3
"""Prints the markdown for DESIGN.md §15 from mutants/own/results.tsv and seeded/*/meta.json."""
import json, os, glob, re
HERE=os.path.dirname(os.path.dirname(os.path.abspath(__file__)))
def first_line_of_notes(d):
    p=os.path.join(d,"NOTES.md")
    if not os.path.exists(p): return ""
    for l in open(p):
        l=l.strip().lstrip('#').strip()
        if l: return l[:110]
    return ""
print("### 15.1 Independent seeded changes (sub-agents given only the property text and a scratch worktree)\n")
print("| change | property; what it needs in order to manifest | passes pinned suite, demo fails with / passes without | caught by (release, quick tier) | own check, debug profile |")
print("|---|---|---|---|---|")
for d in sorted(glob.glob(os.path.join(HERE,"seeded","*"))):
    mp=os.path.join(d,"meta.json")
    if not os.path.exists(mp): continue
    m=json.load(open(mp))
    conf="yes" if "CONFIRMED" in m["confirmed_by_me"] and "NOT-CONFIRMED" not in m["confirmed_by_me"] else "NO: "+m["confirmed_by_me"]
    caught=" ".join(m["checks_that_caught_it_rel"]) or ("— (only in the debug profile, see next column)" if m["own_check_caught_it_dbg"] else "— (not flagged, by design: §16)")
    print(f"| {os.path.basename(d)} | {m['property']}; {m.get('needs_to_manifest','')} | {conf} | {caught} | {' '.join(m['own_check_caught_it_dbg']) or '—'} |")
print("\n### 15.2 The author's own mutants (mutants/own)\n")
print("| mutant | pinned suite | caught by (release, quick tier) |")
print("|---|---|---|")
p=os.path.join(HERE,"mutants","own","results.tsv")
if os.path.exists(p):
    for l in open(p):
        f=l.rstrip("\n").split("\t")
        if len(f)<3: continue
        name,suite,caught=f[0],f[1].replace("suite=",""),re.sub(r"\(rel\)","",f[2].replace("caught=[","").replace("]","")).strip()
        if not os.path.exists(os.path.join(HERE,"mutants","own",name+".diff")): continue
        print(f"| {name} | {suite} | {caught or '— (missed / equivalent)'} |")
