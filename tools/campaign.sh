#!/bin/bash
# tools/campaign.sh <dir-with-*.diff> [IDs...]  — sensitivity campaign: for every patch, does the
# pinned test suite still pass, and which checks (quick tier) notice?  Results: <dir>/results.tsv
set -u
DIR="$(readlink -f "$1")"; shift
IDS="${*:-C01 C03 C04 C05 C06 C09 C11 C12 C14 C15 C16 C17 C18 C19 C20}"
OUT="$DIR/results.tsv"
: > "$OUT"
for p in "$DIR"/*.diff; do
  name="$(basename "$p" .diff)"
  # 1. existing suite on the patched scratch worktree
  res="$(PROFILES="${PROFILES:-rel}" /verif/tools/try_patch.sh "$p" $IDS 2>&1)"
  suite="?"
  ( exec 9>/tmp/mutbox.lock; flock 9
    git -C /tmp/mutbox/repo apply "$p" 2>/dev/null
    if (cd /tmp/mutbox/repo && cargo test --workspace --no-fail-fast --offline >/tmp/mutbox/suite.log 2>&1); then echo pass >/tmp/mutbox/suite.res; else echo FAIL >/tmp/mutbox/suite.res; fi
    git -C /tmp/mutbox/repo checkout -q -- . )
  suite="$(cat /tmp/mutbox/suite.res)"
  caught="$(echo "$res" | grep -E '^== ' | awk '$4 ~ /exit=1/ {printf "%s(%s) ", $2, $3}')"
  errs="$(echo "$res" | grep -E '^== ' | awk '$4 ~ /exit=2/ {printf "%s ", $2}')"
  other="$(echo "$res" | grep -vE '^== ' | head -3 | tr '\n' ' ')"
  printf "%s\tsuite=%s\tcaught=[%s]\tharness_err=[%s]\t%s\n" "$name" "$suite" "$caught" "$errs" "$other" | tee -a "$OUT"
done
