#!/bin/bash
# tools/try_patch.sh <patch.diff> <ID> [<ID>...]    (env: PROFILES="rel dbg", TIER=quick)
# Sensitivity tooling (not part of any registered check): applies a patch to a *scratch* worktree of
# /repo under /tmp/mutbox, builds a copy of the simulator against it and runs the given checks
# there.  /repo and /verif are not touched.  Prints one line per (check, profile): exit code.
set -u
PATCH="$(readlink -f "$1")"; shift
BOX="${BOX:-/tmp/mutbox}"
PROFILES="${PROFILES:-rel}"
TIER="${TIER:-quick}"
exec 9>"$BOX.lock"; flock 9
mkdir -p $BOX
if [ ! -d $BOX/repo/.git ] && [ ! -f $BOX/repo/.git ]; then
  git -C /repo worktree prune
  git -C /repo worktree add --detach -f $BOX/repo HEAD -q || exit 2
fi
git -C $BOX/repo checkout -q --detach "$(git -C /repo rev-parse HEAD)" && git -C $BOX/repo checkout -q -- . && git -C $BOX/repo clean -fdq -e target
git -C $BOX/repo apply "$PATCH" || { echo "PATCH DOES NOT APPLY"; exit 2; }
mkdir -p $BOX/sim $BOX/verif/evidence/.parts $BOX/verif/replays
# simulator sources: the *committed* /verif/sim (SIMREV=<commit> picks an older simulator, to show what a strengthening added) (so that uncommitted edits in progress do not leak in)
rm -rf $BOX/sim-src; mkdir -p $BOX/sim-src
git -C /verif archive "${SIMREV:-HEAD}" sim | tar -x -C $BOX/sim-src
rsync -a --delete --exclude target $BOX/sim-src/sim/ $BOX/sim/
sed -i "s#path = \"/repo\"#path = \"$BOX/repo\"#" $BOX/sim/Cargo.toml
cp /verif/known_findings.json $BOX/verif/
export VERIF_DIR=$BOX/verif CARGO_NET_OFFLINE=true
ulimit -v "${VMEM:-30000000}"   # a patch must not be able to exhaust memory (e.g. a compiler blow-up)
for p in $PROFILES; do
  if [ $p = rel ]; then BIN=$BOX/sim/target/rel/release/ohsim; rm -f $BIN; ( cd $BOX/sim && CARGO_TARGET_DIR=target/rel timeout 900 cargo build --release --offline --quiet 2>&1 | grep -E "^error" -A8 | head -30 )
  else BIN=$BOX/sim/target/dbg/debug/ohsim; rm -f $BIN; ( cd $BOX/sim && CARGO_TARGET_DIR=target/dbg timeout 900 cargo build --offline --quiet 2>&1 | grep -E "^error" -A8 | head -30 ); fi
  # never run a stale binary: the binary is removed before the build, so it only exists if this build succeeded
  [ -x $BIN ] || { echo "BUILD FAILED ($p)"; continue; }
  for id in "$@"; do
    out="$(timeout 1200 $BIN check $id --tier $TIER --part-only 2>&1)"; rc=$?
    echo "== $id $p exit=$rc  $(echo "$out" | grep -E '^minimised: ' | cut -c1-260)"
    [ -n "${VERBOSE:-}" ] && echo "$out" | tail -8 | cut -c1-1500
  done
done
git -C $BOX/repo checkout -q -- . 
