#!/bin/bash
# tools/confirm_seed.sh <dir containing patch.diff and demo.rs> [cargo feature flags]
# Confirms a seeded change in the scratch worktree /tmp/mutbox/repo (never /repo):
#   with the patch:    crate compiles, existing suite passes, demo FAILS
#   without the patch: demo PASSES
set -u
D="$(readlink -f "$1")"; FEAT="${2:-}"
BOX="${BOX:-/tmp/mutbox}"
exec 9>"$BOX.lock"; flock 9
mkdir -p $BOX
if [ ! -e $BOX/repo/.git ]; then git -C /repo worktree prune; git -C /repo worktree add --detach -f $BOX/repo HEAD -q || exit 2; fi
R=$BOX/repo
git -C $R checkout -q --detach "$(git -C /repo rev-parse HEAD)"; git -C $R checkout -q -- .; git -C $R clean -fdq -e target
git -C $R apply "$D/patch.diff" || { echo "RESULT patch-does-not-apply"; exit 1; }
( cd $R && cargo test --workspace --no-fail-fast --offline $FEAT > $BOX/confirm-suite.log 2>&1 ); suite=$?
cp "$D/demo.rs" $R/tests/seeded_demo.rs
( cd $R && timeout 900 cargo test --offline $FEAT --test seeded_demo > $BOX/confirm-demo-with.log 2>&1 ); with=$?
git -C $R checkout -q -- .
( cd $R && timeout 900 cargo test --offline $FEAT --test seeded_demo > $BOX/confirm-demo-without.log 2>&1 ); without=$?
rm -f $R/tests/seeded_demo.rs
echo "RESULT suite_with_patch_exit=$suite demo_with_patch_exit=$with demo_without_patch_exit=$without  $( [ $suite -eq 0 ] && [ $with -ne 0 ] && [ $without -eq 0 ] && echo CONFIRMED || echo NOT-CONFIRMED )"
grep -E "^test result" $BOX/confirm-suite.log | tr '\n' ' '; echo
echo "demo with patch:    $(grep -E '^test result|stack overflow|SIGABRT|signal' $BOX/confirm-demo-with.log | tr '\n' ' ')"
echo "demo without patch: $(grep -E '^test result' $BOX/confirm-demo-without.log | tr '\n' ' ')"
