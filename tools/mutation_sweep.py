#!/usr/bin/env python3
"""tools/mutation_sweep.py [--n N] [--boxes B] [--seed S] [--only FILE-SUBSTRING]

Sensitivity tooling (not part of any registered check).  Mechanical mutation sweep:

  1. enumerate single-line mechanical mutants of /repo/src (relational / arithmetic / logical
     operator swaps, off-by-one, zero<->one, source<->target identifier swaps, true<->false,
     deletion of a call statement), outside test modules, comments and assertions;
  2. sample N of them with a fixed PRNG, stratified over files;
  3. stage 1, in a scratch worktree /tmp/mbox<i>/repo: drop mutants that do not compile or that the
     repository's own test suite kills (the registered baseline command, with a time limit);
  4. stage 2, for the survivors of the suite: tools/try_patch.sh with all 15 checks (release
     profile, quick tier) in the same box; record which checks report a violation.

/repo and /verif/sim are never touched; results go to /verif/mutants/sweep/.
"""
import os, re, sys, json, random, subprocess, threading, hashlib, argparse, time

REPO = '/repo'
OUT = '/verif/mutants/sweep'
IDS = "C01 C03 C04 C05 C06 C09 C11 C12 C14 C15 C16 C17 C18 C19 C20".split()

def src_files():
    out = []
    for root, _, files in os.walk(os.path.join(REPO, 'src')):
        if '/tests' in root:
            continue
        for f in files:
            if f.endswith('.rs') and f not in ('lib.rs', 'new-traits.rs'):
                out.append(os.path.relpath(os.path.join(root, f), REPO))
    return sorted(out)

SWAPS = [
    (r' <= ', ' < '), (r' >= ', ' > '), (r' < ', ' <= '), (r' > ', ' >= '),
    (r' == ', ' != '), (r' != ', ' == '),
    (r' \+ ', ' - '), (r' - ', ' + '),
    (r' \+ 1\b', ''), (r' - 1\b', ''),
    (r' && ', ' || '), (r' \|\| ', ' && '),
    (r'\bzero\(\)', 'one()'), (r'\bone\(\)', 'zero()'),
    (r'\btrue\b', 'false'), (r'\bfalse\b', 'true'),
    (r'\bsources\b', 'targets'), (r'\btargets\b', 'sources'),
    (r'\bsource\(\)', 'target()'), (r'\btarget\(\)', 'source()'),
    (r'\.s\b', '.t'), (r'\.t\b', '.s'),
    (r'\bis_empty\(\)', 'len() == 1'),
    (r'\b0\.\.', '1..'),
    (r'\.\.=', '..'),
    (r'\bmax\(\)', 'sum()'),
    (r'\bcumulative_sum\(\)', 'clone()'),
    (r'\binj0\b', 'inj1'), (r'\binj1\b', 'inj0'),
    (r'\bfirst\b', 'last'),
    (r'\bself\b', 'other'), (r'\bother\b', 'self'), (r'\brhs\b', 'self'),
    (r'\blhs\b', 'rhs'),
    (r' \+= ', ' -= '), (r' -= ', ' += '),
    (r'\.0\b(?!\.)', '.1'), (r'\.1\b(?!\.)', '.0'),
    (r'\bs\b', 't'), (r'\bt\b', 's'),
    (r'\bfs\b', 'ft'), (r'\bft\b', 'fs'),
    (r"(?<!')\ba\b", 'b'), (r"(?<!')\bb\b", 'a'),
    (r'\binject0\b', 'inject1'), (r'\binject1\b', 'inject0'),
    (r'\.dagger\(\)', ''),
    (r'\bmin\b', 'max'), (r'\blast\b', 'first'),
    (r'\.iter\(\)', '.iter().rev()'),
    (r'\((&?\w+), (&?\w+)\)', r'(\2, \1)'),
    (r'^(\s*)if (?!let )(.+) \{$', r'\1if !(\2) {'),
    (r'^(\s*)\} else if (?!let )(.+) \{$', r'\1} else if !(\2) {'),
]

def candidates(path):
    lines = open(os.path.join(REPO, path)).read().split('\n')
    out = []
    in_test = False
    depth_at_test = None
    for i, line in enumerate(lines):
        st = line.strip()
        if st.startswith('#[cfg(test)]'):
            in_test = True
        if in_test:
            # test modules sit at the end of the files of this crate
            continue
        if not st or st.startswith('//') or st.startswith('#[') or st.startswith('use ') or st.startswith('pub use '):
            continue
        if '.field(' in st or '.finish()' in st:
            continue  # Debug impls
        if 'assert' in st or st.startswith('fn ') or st.startswith('pub fn ') or st.startswith('impl') or st.startswith('where') or st.startswith('pub trait') or st.startswith('type '):
            continue
        code = line.split('//')[0]
        prev = '\n'.join(lines[max(0, i - 15):i + 1])
        for pat, rep in SWAPS:
            if pat in (r' \+ ', r' - ') and (re.search(r':\s*[A-Z]', code) or st[0] in '+-' or 'Output' in code):
                continue  # trait bounds
            if pat in (r' > ', r' >= ') and st.startswith('>'):
                continue  # generics
            if pat == r'\bself\b' and not re.search(r'\bother\b', prev):
                continue
            for m in re.finditer(pat, code):
                new = code[:m.start()] + m.expand(rep) + code[m.end():]
                if new != code:
                    out.append((path, i, f'{pat}->{rep}@{m.start()}', new))
        # deletion of a call statement
        if re.match(r'^\s*[a-z_][\w\.]*\.[a-z_]+\(.*\);\s*$', code) and not st.startswith('let ') and not st.startswith('return'):
            out.append((path, i, 'delete-statement', ''))
    return out

def sh(cmd, cwd=None, timeout=None, env=None):
    try:
        p = subprocess.run(cmd, shell=True, cwd=cwd, timeout=timeout, env=env, stdout=subprocess.PIPE, stderr=subprocess.STDOUT, text=True)
        return p.returncode, p.stdout
    except subprocess.TimeoutExpired as e:
        return 124, (e.stdout or b'').decode(errors='replace') if isinstance(e.stdout, bytes) else (e.stdout or '')

def setup_box(box):
    os.makedirs(box, exist_ok=True)
    if not os.path.exists(box + '/repo/.git'):
        sh('git -C /repo worktree prune')
        rc, out = sh(f'git -C /repo worktree add --detach -f {box}/repo HEAD -q')
        assert rc == 0, out

def run_mutant(box, m, lock, results):
    path, ln, op, new = m
    mid = hashlib.sha1(f'{path}:{ln}:{op}'.encode()).hexdigest()[:10]
    repo = box + '/repo'
    sh('git checkout -q -- . && git clean -fdq -e target', cwd=repo)
    full = os.path.join(repo, path)
    lines = open(full).read().split('\n')
    old = lines[ln]
    lines[ln] = new
    open(full, 'w').write('\n'.join(lines))
    env = dict(os.environ, CARGO_NET_OFFLINE='true')
    pre = 'ulimit -v 16000000; '
    rec = {'id': mid, 'file': path, 'line': ln + 1, 'op': op, 'old': old.strip(), 'new': new.strip()}
    rc, out = sh(pre + 'timeout 600 cargo build --offline --quiet --features serde 2>&1 | tail -3', cwd=repo, env=env, timeout=700)
    rc, _ = sh('test -z "$(cargo build --offline --quiet --features serde 2>&1 | grep -E \'^error\')"', cwd=repo, env=env, timeout=700)
    if rc != 0:
        rec['stage'] = 'no-compile'
    else:
        rc, out = sh(pre + 'timeout 900 cargo test --workspace --no-fail-fast --offline >/dev/null 2>&1', cwd=repo, env=env, timeout=1000)
        ok = rc == 0
        if not ok:
            rec['stage'] = 'suite-kills'
        else:
            rc, diff = sh('git diff', cwd=repo)
            if not diff.strip():
                rec['stage'] = 'artifact-empty-diff'  # the mutation was reverted under us: not a result
                with lock:
                    print(rec['id'], 'ARTIFACT: empty diff', flush=True)
                return
            os.makedirs(OUT, exist_ok=True)
            pf = f'{OUT}/{mid}.diff'
            open(pf, 'w').write(diff)
            sh('git checkout -q -- .', cwd=repo)
            env2 = dict(env, BOX=box, VMEM='24000000')
            rc, out = sh(f'/verif/tools/try_patch.sh {pf} ' + ' '.join(IDS), env=env2, timeout=6000)
            caught, errs = [], []
            for l in out.split('\n'):
                mm = re.match(r'== (C\d\d) rel exit=(\d+)\s*(.*)', l)
                if mm:
                    if mm.group(2) == '1':
                        caught.append(mm.group(1))
                    elif mm.group(2) != '0':
                        errs.append(mm.group(1) + ':' + mm.group(2))
            rec['stage'] = 'survives-suite'
            rec['caught_by'] = caught
            rec['harness_errors'] = errs
            if 'BUILD FAILED' in out:
                rec['stage'] = 'sim-build-failed'
            rec['first_line'] = next((l[:300] for l in out.split('\n') if 'exit=1' in l), '')
    sh('git checkout -q -- .', cwd=repo)
    with lock:
        results.append(rec)
        with open(f'{OUT}/results.jsonl', 'a') as f:
            f.write(json.dumps(rec) + '\n')
        print(rec['id'], rec['file'], rec['line'], rec['op'], rec['stage'], rec.get('caught_by', ''), rec.get('harness_errors', ''), flush=True)

def main():
    ap = argparse.ArgumentParser()
    ap.add_argument('--n', type=int, default=150)
    ap.add_argument('--boxes', type=int, default=3)
    ap.add_argument('--seed', type=int, default=1)
    ap.add_argument('--only', default='')
    ap.add_argument('--exclude', default='', help='comma-separated path substrings to skip')
    ap.add_argument('--list', action='store_true')
    a = ap.parse_args()
    rnd = random.Random(a.seed)
    per_file = {}
    for p in src_files():
        if a.only and a.only not in p:
            continue
        if a.exclude and any(x in p for x in a.exclude.split(',')):
            continue
        c = candidates(p)
        if c:
            per_file[p] = c
    total = sum(len(v) for v in per_file.values())
    # stratified: share proportional to sqrt(#candidates)
    w = {p: len(v) ** 0.5 for p, v in per_file.items()}
    ws = sum(w.values())
    done = set()
    if os.path.exists(f'{OUT}/results.jsonl'):
        for l in open(f'{OUT}/results.jsonl'):
            done.add(json.loads(l)['id'])
    chosen = []
    for p, v in sorted(per_file.items()):
        k = max(1, round(a.n * w[p] / ws))
        rnd.shuffle(v)
        chosen += v[:k]
    rnd.shuffle(chosen)
    chosen = [m for m in chosen if hashlib.sha1(f'{m[0]}:{m[1]}:{m[2]}'.encode()).hexdigest()[:10] not in done]
    print(f'# {total} candidate mutants in {len(per_file)} files; {len(chosen)} sampled and not yet done', flush=True)
    if a.list:
        for m in chosen:
            print(m[0], m[1] + 1, m[2], '|', m[3].strip())
        return
    os.makedirs(OUT, exist_ok=True)
    lock = threading.Lock()
    results = []
    it = iter(chosen)
    def worker(i):
        box = f'/tmp/mbox{i}'
        setup_box(box)
        while True:
            with lock:
                m = next(it, None)
            if m is None:
                return
            try:
                run_mutant(box, m, lock, results)
            except Exception as e:
                print('ERROR', m[:3], e, flush=True)
    ts = [threading.Thread(target=worker, args=(i,)) for i in range(a.boxes)]
    for t in ts: t.start()
    for t in ts: t.join()

if __name__ == '__main__':
    main()
