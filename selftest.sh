#!/bin/bash
# /verif/selftest.sh [quick|full] — self-tests of the harness (exit 2 on failure; never a VIOLATION)
#  1. isomorphism oracle against brute force
#  2. determinism: per check and profile, N seeds x 2 worker counts in separate processes; the
#     per-run records (run index, workload hash, schedule fingerprint, event-log hash, verdict) must be identical
#  3. reach probes: every probe a check declares as required is non-zero in a quick run
set -u
HERE="$(cd "$(dirname "${BASH_SOURCE[0]}")" && pwd)"
MODE="${1:-quick}"
SIM="$HERE/sim"
IDS="C01 C03 C04 C05 C06 C09 C11 C12 C14 C15 C16 C17 C18 C19 C20"
TMP="$SIM/target/selftest"
rm -rf "$TMP"; mkdir -p "$TMP/evidence/.parts"
cp "$HERE/known_findings.json" "$TMP/"
export VERIF_DIR="$TMP"
fail=0
if [ "$MODE" = full ]; then RUNS=3000; SEEDS="1 2 3 4 5 6 7 8"; ISO=200000; else RUNS=1500; SEEDS="1 7"; ISO=30000; fi
"$SIM/target/rel/release/ohsim" selftest iso $ISO || fail=2
"$SIM/target/dbg/debug/ohsim" selftest iso 5000 || fail=2
"$SIM/target/rel/release/ohsim" selftest partition || fail=2
for id in $IDS; do
  for prof in rel dbg; do
    if [ $prof = rel ]; then BIN="$SIM/target/rel/release/ohsim"; else BIN="$SIM/target/dbg/debug/ohsim"; fi
    for seed in $SEEDS; do
      VERIF_SEED=$seed "$BIN" check $id --runs $RUNS --workers 16 --part-only --records "$TMP/r16" >/dev/null 2>&1; a=$?
      VERIF_SEED=$seed "$BIN" check $id --runs $RUNS --workers 1  --part-only --records "$TMP/r1"  >/dev/null 2>&1; b=$?
      VERIF_SEED=$seed "$BIN" check $id --runs $RUNS --workers 5  --part-only --records "$TMP/r5"  >/dev/null 2>&1; c=$?
      if [ $a -ne 0 ] || [ $b -ne 0 ] || [ $c -ne 0 ]; then echo "SELFTEST: $id $prof seed $seed exit codes $a $b $c"; fail=2; fi
      if ! cmp -s "$TMP/r16" "$TMP/r1" || ! cmp -s "$TMP/r16" "$TMP/r5"; then echo "SELFTEST: determinism failure $id $prof seed $seed"; diff "$TMP/r16" "$TMP/r1" | head -5; fail=2; fi
    done
  done
  echo "determinism ok: $id ($(wc -l < "$TMP/r16") records x $(echo $SEEDS | wc -w) seeds x 2 profiles x 3 worker counts)"
done
# reach probes on a quick run
for id in $IDS; do
  for prof in rel dbg; do
    if [ $prof = rel ]; then BIN="$SIM/target/rel/release/ohsim"; else BIN="$SIM/target/dbg/debug/ohsim"; fi
    "$BIN" check $id --tier quick --part-only >/dev/null 2>&1 || { echo "SELFTEST: $id $prof quick run failed"; fail=2; }
    "$BIN" selftest probes $id "$TMP/evidence/.parts/$id.$prof.json" || fail=2
  done
done
rm -rf "$TMP"
[ $fail -eq 0 ] && echo "SELFTEST OK" || echo "SELFTEST FAILED"
exit $fail
