//! The lax history machine (C09, C11): generated operation histories on a real
//! `lax::OpenHypergraph` / `lax::Hypergraph`, checked step by step against a plain list model.
//!
//! Faults: a quotient that fails midway (label conflict), deletions with out-of-range identifiers
//! (rejected by panic), with_nodes/with_edges with a wrong length, restart = persist to a
//! simulated disk + drop + restore (short writes, short reads, EINTR), fork = clone and continue.

use crate::plain::{UnionFind, L};
use crate::rng::{Fp, Rng};
use crate::runner::{viol, Check, Exec, Tier, Violation};
use open_hypergraphs::lax::{EdgeId, Hyperedge, Hypergraph, NodeId, OpenHypergraph};
use serde::{Deserialize, Serialize};
use serde_json::{json, Value};
use std::io::{Read, Write};

#[derive(Clone, PartialEq, Eq, Debug, Default, Serialize, Deserialize)]
pub struct Model {
    pub nodes: Vec<L>,
    pub edges: Vec<L>,
    pub adj: Vec<(Vec<usize>, Vec<usize>)>,
    pub q: Vec<(usize, usize)>,
    pub s: Vec<usize>,
    pub t: Vec<usize>,
}

#[derive(Clone, Debug, Serialize, Deserialize, PartialEq)]
pub enum Op {
    NewNode(L),
    NewEdge { l: L, s: Vec<usize>, t: Vec<usize> },
    NewOperation { l: L, st: Vec<L>, tt: Vec<L> },
    AddEdgeSource { e: usize, l: L },
    AddEdgeTarget { e: usize, l: L },
    Unify(usize, usize),
    SetSources(Vec<usize>),
    SetTargets(Vec<usize>),
    DeleteNodes(Vec<usize>),
    DeleteEdges(Vec<usize>),
    /// map_nodes(|l| (l + k) % modulus)
    MapNodes { k: L, modulus: L },
    MapEdges { k: L, modulus: L },
    /// with_nodes with a closure that relabels one node; `len_delta` != 0 makes the closure return
    /// a vector of the wrong length (must be refused with None)
    WithNodes { v: usize, l: L, len_delta: i32 },
    WithEdges { e: usize, l: L, len_delta: i32 },
    /// map_nodes(|_| l): repairs every label conflict
    RelabelAll(L),
    Quotient,
    Restart { disk_seed: u64 },
    Fork,
    /// stress only: create `nodes` nodes labelled `label` and unify them into one long chain
    Bulk { nodes: usize, label: L, descending: bool },
}

#[derive(Clone, Debug, Serialize, Deserialize)]
pub struct Case {
    pub ops: Vec<Op>,
}

fn ids(v: &[usize]) -> Vec<NodeId> {
    v.iter().map(|x| NodeId(*x)).collect()
}
fn un(v: &[NodeId]) -> Vec<usize> {
    v.iter().map(|x| x.0).collect()
}

impl Model {
    pub fn hash(&self) -> u64 {
        let mut f = Fp::new();
        for l in &self.nodes {
            f.add(*l as u64);
        }
        f.add(0xEE);
        for (i, l) in self.edges.iter().enumerate() {
            f.add(*l as u64);
            f.add_slice(&self.adj[i].0);
            f.add_slice(&self.adj[i].1);
        }
        for (a, b) in &self.q {
            f.add((*a * 1000 + *b) as u64);
        }
        f.add_slice(&self.s);
        f.add_slice(&self.t);
        f.0
    }
    /// field-for-field comparison with the real open hypergraph
    pub fn diff_open(&self, f: &OpenHypergraph<L, L>) -> Option<String> {
        if let Some(d) = self.diff_h(&f.hypergraph) {
            return Some(d);
        }
        if self.s != un(&f.sources) {
            return Some(format!("sources: real {:?}, model {:?}", un(&f.sources), self.s));
        }
        if self.t != un(&f.targets) {
            return Some(format!("targets: real {:?}, model {:?}", un(&f.targets), self.t));
        }
        None
    }
    pub fn diff_h(&self, h: &Hypergraph<L, L>) -> Option<String> {
        if self.nodes != h.nodes {
            return Some(format!("nodes: real {:?}, model {:?}", h.nodes, self.nodes));
        }
        if self.edges != h.edges {
            return Some(format!("edges: real {:?}, model {:?}", h.edges, self.edges));
        }
        let radj: Vec<(Vec<usize>, Vec<usize>)> = h.adjacency.iter().map(|e| (un(&e.sources), un(&e.targets))).collect();
        if self.adj != radj {
            return Some(format!("adjacency: real {:?}, model {:?}", radj, self.adj));
        }
        let rq: Vec<(usize, usize)> = h.quotient.0.iter().zip(h.quotient.1.iter()).map(|(a, b)| (a.0, b.0)).collect();
        if self.q != rq || h.quotient.0.len() != h.quotient.1.len() {
            return Some(format!("pending unifications: real {:?} / {:?}, model {:?}", un(&h.quotient.0), un(&h.quotient.1), self.q));
        }
        if h.is_strict() != self.q.is_empty() {
            return Some(format!("is_strict() says {} but the pending pairs are {:?}", h.is_strict(), self.q));
        }
        None
    }
    /// classes of the pending unifications; Some(conflict witness) if a class holds two labels
    pub fn classes(&self) -> (Vec<usize>, Option<(usize, usize)>) {
        let n = self.nodes.len();
        let mut uf = UnionFind::new(n);
        for (a, b) in &self.q {
            uf.union(*a, *b);
        }
        let rep: Vec<usize> = (0..n).map(|v| uf.find(v)).collect();
        let mut conflict = None;
        for v in 0..n {
            if self.nodes[v] != self.nodes[rep[v]] {
                conflict = Some((rep[v], v));
                break;
            }
        }
        (rep, conflict)
    }
    fn delete_nodes(&mut self, del: &[usize]) -> Vec<Option<usize>> {
        let n = self.nodes.len();
        let mut map: Vec<Option<usize>> = vec![None; n];
        let mut k = 0;
        for v in 0..n {
            if !del.contains(&v) {
                map[v] = Some(k);
                k += 1;
            }
        }
        self.nodes = (0..n).filter(|v| map[*v].is_some()).map(|v| self.nodes[v]).collect();
        for a in self.adj.iter_mut() {
            a.0 = a.0.iter().filter_map(|v| map[*v]).collect();
            a.1 = a.1.iter().filter_map(|v| map[*v]).collect();
        }
        self.q = self.q.iter().filter_map(|(a, b)| Some((map[*a]?, map[*b]?))).collect();
        self.s = self.s.iter().filter_map(|v| map[*v]).collect();
        self.t = self.t.iter().filter_map(|v| map[*v]).collect();
        map
    }
}

// ------------------------------------------------------------------------- simulated disk

pub struct SimDisk {
    pub data: Vec<u8>,
    rng: Rng,
    pos: usize,
    pub short_writes: u64,
    pub short_reads: u64,
    pub eintr: u64,
    faults: bool,
}
impl SimDisk {
    pub fn new(seed: u64, faults: bool) -> SimDisk {
        SimDisk { data: vec![], rng: Rng::new(seed), pos: 0, short_writes: 0, short_reads: 0, eintr: 0, faults }
    }
}
impl Write for SimDisk {
    fn write(&mut self, buf: &[u8]) -> std::io::Result<usize> {
        if buf.is_empty() {
            return Ok(0);
        }
        if self.faults && self.rng.chance(1, 6) {
            self.eintr += 1;
            return Err(std::io::Error::new(std::io::ErrorKind::Interrupted, "simulated EINTR"));
        }
        let k = if self.faults && self.rng.chance(1, 2) { self.rng.range(1, buf.len().min(7)) } else { buf.len() };
        if k < buf.len() {
            self.short_writes += 1;
        }
        self.data.extend_from_slice(&buf[..k]);
        Ok(k)
    }
    fn flush(&mut self) -> std::io::Result<()> {
        Ok(())
    }
}
impl Read for SimDisk {
    fn read(&mut self, buf: &mut [u8]) -> std::io::Result<usize> {
        if buf.is_empty() || self.pos >= self.data.len() {
            return Ok(0);
        }
        if self.faults && self.rng.chance(1, 6) {
            self.eintr += 1;
            return Err(std::io::Error::new(std::io::ErrorKind::Interrupted, "simulated EINTR"));
        }
        let avail = (self.data.len() - self.pos).min(buf.len());
        let k = if self.faults && self.rng.chance(1, 2) { self.rng.range(1, avail.min(5)) } else { avail };
        if k < avail {
            self.short_reads += 1;
        }
        buf[..k].copy_from_slice(&self.data[self.pos..self.pos + k]);
        self.pos += k;
        Ok(k)
    }
}

fn keys(v: &Value) -> Vec<String> {
    let mut k: Vec<String> = v.as_object().map(|o| o.keys().cloned().collect()).unwrap_or_default();
    k.sort();
    k
}

/// the documented JSON shape (README): field names and bare-integer identifiers
fn check_json_shape(text: &[u8], m: &Model) -> Result<(), String> {
    let v: Value = serde_json::from_slice(text).map_err(|e| format!("persisted text is not JSON: {}", e))?;
    if keys(&v) != ["hypergraph", "sources", "targets"] {
        return Err(format!("top-level keys are {:?}, documented: sources, targets, hypergraph", keys(&v)));
    }
    let h = &v["hypergraph"];
    if keys(h) != ["adjacency", "edges", "nodes", "quotient"] {
        return Err(format!("hypergraph keys are {:?}, documented: nodes, edges, adjacency, quotient", keys(h)));
    }
    if v["sources"] != json!(m.s) || v["targets"] != json!(m.t) {
        return Err(format!("interfaces are not lists of bare integers equal to the identifiers: {} / {}", v["sources"], v["targets"]));
    }
    let adj = h["adjacency"].as_array().ok_or("adjacency is not a list")?;
    if adj.len() != m.adj.len() {
        return Err("adjacency has the wrong number of entries".into());
    }
    for (i, a) in adj.iter().enumerate() {
        if keys(a) != ["sources", "targets"] {
            return Err(format!("hyperedge keys are {:?}, documented: sources, targets", keys(a)));
        }
        if a["sources"] != json!(m.adj[i].0) || a["targets"] != json!(m.adj[i].1) {
            return Err(format!("hyperedge {} is persisted as {} but holds {:?}", i, a, m.adj[i]));
        }
    }
    let ql: Vec<usize> = m.q.iter().map(|p| p.0).collect();
    let qr: Vec<usize> = m.q.iter().map(|p| p.1).collect();
    if h["quotient"] != json!([ql, qr]) {
        return Err(format!("quotient is persisted as {} but the pending pairs are {:?}", h["quotient"], m.q));
    }
    if h["nodes"] != json!(m.nodes) || h["edges"] != json!(m.edges) {
        return Err("nodes / edges are not persisted as the lists of labels".into());
    }
    Ok(())
}

// ------------------------------------------------------------------------- the machine

#[derive(Clone, Copy, PartialEq)]
pub enum Mode {
    /// C09: quotient-centred histories
    Quotient,
    /// C11: editing histories (no quotient step)
    Editing,
}

struct Machine<'a> {
    ex: &'a mut Exec,
    id: &'static str,
    real: OpenHypergraph<L, L>,
    /// the same history on a bare lax::Hypergraph (no interfaces)
    bare: Hypergraph<L, L>,
    m: Model,
    forks: Vec<(OpenHypergraph<L, L>, Model, usize)>,
    /// a quotient failed and none has succeeded since
    pending_failure: bool,
}

fn valid_nodes(v: &[usize], n: usize) -> bool {
    v.iter().all(|x| *x < n)
}

impl<'a> Machine<'a> {
    fn v<T>(&self, clause: &str, step: usize, op: &Op, detail: String) -> Result<T, Violation> {
        viol(&format!("{}:{}", self.id, clause), format!("step {} ({:?}): {}", step, op, detail))
    }

    fn step(&mut self, i: usize, op: &Op) -> Result<(), Violation> {
        let n = self.m.nodes.len();
        let ne = self.m.edges.len();
        let id = self.id;
        match op {
            Op::NewNode(l) => {
                let (a, b) = self.ex.lib(&format!("{}:new_node", id), || (self.real.new_node(*l), self.bare.new_node(*l)))?;
                if a.0 != n || b.0 != n {
                    return self.v("fresh-identifier", i, op, format!("returned node ids {:?}/{:?}, next fresh index is {}", a, b, n));
                }
                self.m.nodes.push(*l);
            }
            Op::NewEdge { l, s, t } => {
                if !valid_nodes(s, n) || !valid_nodes(t, n) {
                    return Ok(()); // precondition (valid identifiers) no longer holds after shrinking: skip
                }
                let he = || Hyperedge { sources: ids(s), targets: ids(t) };
                // the struct form and the (sources, targets) tuple form of the interface argument
                let (a, b) = self.ex.lib(&format!("{}:new_edge", id), || (self.real.new_edge(*l, he()), self.bare.new_edge(*l, (ids(s), ids(t)))))?;
                if a.0 != ne || b.0 != ne {
                    return self.v("fresh-identifier", i, op, format!("returned edge ids {:?}/{:?}, next fresh index is {}", a, b, ne));
                }
                self.m.edges.push(*l);
                self.m.adj.push((s.clone(), t.clone()));
            }
            Op::NewOperation { l, st, tt } => {
                let ((e, (s, t)), (e2, (s2, t2))) = self.ex.lib(&format!("{}:new_operation", id), || (self.real.new_operation(*l, st.clone(), tt.clone()), self.bare.new_operation(*l, st.clone(), tt.clone())))?;
                let ms: Vec<usize> = (n..n + st.len()).collect();
                let mt: Vec<usize> = (n + st.len()..n + st.len() + tt.len()).collect();
                if e.0 != ne || un(&s) != ms || un(&t) != mt || e2.0 != ne || un(&s2) != ms || un(&t2) != mt {
                    return self.v("fresh-identifier", i, op, format!("returned ({:?}, {:?}, {:?}); expected edge {} with fresh nodes {:?} -> {:?}", e, s, t, ne, ms, mt));
                }
                self.m.nodes.extend(st.iter().copied());
                self.m.nodes.extend(tt.iter().copied());
                self.m.edges.push(*l);
                self.m.adj.push((ms, mt));
            }
            Op::AddEdgeSource { e, l } | Op::AddEdgeTarget { e, l } => {
                if *e >= ne {
                    return Ok(());
                }
                let is_src = matches!(op, Op::AddEdgeSource { .. });
                let (a, b) = self.ex.lib(&format!("{}:add_edge_source/target", id), || {
                    if is_src {
                        (self.real.add_edge_source(EdgeId(*e), *l), self.bare.add_edge_source(EdgeId(*e), *l))
                    } else {
                        (self.real.add_edge_target(EdgeId(*e), *l), self.bare.add_edge_target(EdgeId(*e), *l))
                    }
                })?;
                if a.0 != n || b.0 != n {
                    return self.v("fresh-identifier", i, op, format!("returned node ids {:?}/{:?}, next fresh index is {}", a, b, n));
                }
                self.m.nodes.push(*l);
                if is_src {
                    self.m.adj[*e].0.push(n);
                } else {
                    self.m.adj[*e].1.push(n);
                }
            }
            Op::Unify(a, b) => {
                if *a >= n || *b >= n {
                    return Ok(());
                }
                self.ex.lib(&format!("{}:unify", id), || {
                    self.real.unify(NodeId(*a), NodeId(*b));
                    self.bare.unify(NodeId(*a), NodeId(*b));
                })?;
                self.m.q.push((*a, *b));
            }
            Op::SetSources(s) => {
                if !valid_nodes(s, n) {
                    return Ok(());
                }
                self.real.sources = ids(s);
                self.m.s = s.clone();
            }
            Op::SetTargets(t) => {
                if !valid_nodes(t, n) {
                    return Ok(());
                }
                self.real.targets = ids(t);
                self.m.t = t.clone();
            }
            Op::DeleteNodes(del) => {
                let oob = del.iter().any(|v| *v >= n);
                let nid = ids(del);
                let r = self.ex.lib_try(crate::runner::DEFAULT_BUDGET, || {
                    let mut g = self.real.clone();
                    g.delete_nodes(&nid);
                    let mut b = self.bare.clone();
                    let w = b.delete_nodes_witness(&nid);
                    (g, b, w)
                });
                match r {
                    Err(p) => {
                        if !oob {
                            return self.v("delete_nodes:rejected-valid-identifiers", i, op, format!("panicked ({}) although every identifier is in range (n = {})", p.msg, n));
                        }
                        self.ex.probe("delete_out_of_range_rejected");
                    }
                    Ok((g, b, w)) => {
                        if oob {
                            return self.v("delete_nodes:accepted-out-of-range", i, op, format!("returned normally although an identifier is >= {}", n));
                        }
                        let map = self.m.delete_nodes(del);
                        if w != map {
                            return self.v("delete_nodes:wrong-renumbering-reported", i, op, format!("reported {:?}, monotone renumbering of the survivors is {:?}", w, map));
                        }
                        self.real = g;
                        self.bare = b;
                        self.ex.probe("delete_nodes_done");
                        self.ex.probe_if((0..del.len()).any(|k| del[..k].contains(&del[k])), "delete_with_duplicates");
                    }
                }
            }
            Op::DeleteEdges(del) => {
                let oob = del.iter().any(|e| *e >= ne);
                let eid: Vec<EdgeId> = del.iter().map(|e| EdgeId(*e)).collect();
                let alias = i % 3 == 0; // the deprecated name `delete_edge` now and then
                let r = self.ex.lib_try(crate::runner::DEFAULT_BUDGET, || {
                    let mut g = self.real.clone();
                    g.delete_edges(&eid);
                    let mut b = self.bare.clone();
                    if alias {
                        #[allow(deprecated)]
                        b.delete_edge(&eid);
                    } else {
                        b.delete_edges(&eid);
                    }
                    (g, b)
                });
                match r {
                    Err(p) => {
                        if !oob {
                            return self.v("delete_edges:rejected-valid-identifiers", i, op, format!("panicked ({}) although every identifier is in range (m = {})", p.msg, ne));
                        }
                        self.ex.probe("delete_out_of_range_rejected");
                    }
                    Ok((g, b)) => {
                        if oob {
                            return self.v("delete_edges:accepted-out-of-range", i, op, format!("returned normally although an identifier is >= {}", ne));
                        }
                        let keep: Vec<usize> = (0..ne).filter(|e| !del.contains(e)).collect();
                        self.m.edges = keep.iter().map(|e| self.m.edges[*e]).collect();
                        self.m.adj = keep.iter().map(|e| self.m.adj[*e].clone()).collect();
                        self.real = g;
                        self.bare = b;
                        self.ex.probe("delete_edges_done");
                    }
                }
            }
            Op::MapNodes { k, modulus } => {
                let f = |l: L| (l + *k) % (*modulus).max(1);
                let (a, b) = self.ex.lib(&format!("{}:map_nodes", id), || (self.real.clone().map_nodes(f), self.bare.clone().map_nodes(f)))?;
                self.real = a;
                self.bare = b;
                self.m.nodes = self.m.nodes.iter().map(|l| f(*l)).collect();
            }
            Op::MapEdges { k, modulus } => {
                let f = |l: L| (l + *k) % (*modulus).max(1);
                let (a, b) = self.ex.lib(&format!("{}:map_edges", id), || (self.real.clone().map_edges(f), self.bare.clone().map_edges(f)))?;
                self.real = a;
                self.bare = b;
                self.m.edges = self.m.edges.iter().map(|l| f(*l)).collect();
            }
            Op::RelabelAll(l) => {
                let (a, b) = self.ex.lib(&format!("{}:map_nodes", id), || (self.real.clone().map_nodes(|_| *l), self.bare.clone().map_nodes(|_| *l)))?;
                self.real = a;
                self.bare = b;
                self.m.nodes = vec![*l; n];
            }
            Op::WithNodes { v, l, len_delta } => {
                let f = |mut nodes: Vec<L>| -> Vec<L> {
                    if *v < nodes.len() {
                        nodes[*v] = *l;
                    }
                    if *len_delta > 0 {
                        nodes.push(*l);
                    } else if *len_delta < 0 {
                        nodes.pop();
                    }
                    nodes
                };
                let (a, b) = self.ex.lib(&format!("{}:with_nodes", id), || (self.real.clone().with_nodes(f), self.bare.clone().with_nodes(f)))?;
                let wrong_len = *len_delta > 0 || (*len_delta < 0 && n > 0);
                match (a, b) {
                    (None, None) if wrong_len => self.ex.probe("with_wrong_length_refused"),
                    (Some(a), Some(b)) if !wrong_len => {
                        self.real = a;
                        self.bare = b;
                        if *v < n {
                            self.m.nodes[*v] = *l;
                        }
                    }
                    (a, _) => return self.v("with_nodes:acceptance", i, op, format!("returned {} for a label vector of {} length", if a.is_some() { "Some" } else { "None" }, if wrong_len { "the wrong" } else { "the right" })),
                }
            }
            Op::WithEdges { e, l, len_delta } => {
                let f = |mut edges: Vec<L>| -> Vec<L> {
                    if *e < edges.len() {
                        edges[*e] = *l;
                    }
                    if *len_delta > 0 {
                        edges.push(*l);
                    } else if *len_delta < 0 {
                        edges.pop();
                    }
                    edges
                };
                let (a, b) = self.ex.lib(&format!("{}:with_edges", id), || (self.real.clone().with_edges(f), self.bare.clone().with_edges(f)))?;
                let wrong_len = *len_delta > 0 || (*len_delta < 0 && ne > 0);
                match (a, b) {
                    (None, None) if wrong_len => self.ex.probe("with_wrong_length_refused"),
                    (Some(a), Some(b)) if !wrong_len => {
                        self.real = a;
                        self.bare = b;
                        if *e < ne {
                            self.m.edges[*e] = *l;
                        }
                    }
                    (a, _) => return self.v("with_edges:acceptance", i, op, format!("returned {} for a label vector of {} length", if a.is_some() { "Some" } else { "None" }, if wrong_len { "the wrong" } else { "the right" })),
                }
            }
            Op::Bulk { nodes, label, descending } => {
                let base = n;
                self.ex.lib(&format!("{}:bulk-build", id), || {
                    for _ in 0..*nodes {
                        self.real.new_node(*label);
                        self.bare.new_node(*label);
                    }
                    let mut pairs: Vec<(usize, usize)> = (1..*nodes).map(|k| (base + k, base + k - 1)).collect();
                    if *descending {
                        pairs.reverse();
                    }
                    for (a, b) in pairs {
                        self.real.unify(NodeId(a), NodeId(b));
                        self.bare.unify(NodeId(a), NodeId(b));
                    }
                })?;
                self.m.nodes.extend(std::iter::repeat(*label).take(*nodes));
                let mut pairs: Vec<(usize, usize)> = (1..*nodes).map(|k| (base + k, base + k - 1)).collect();
                if *descending {
                    pairs.reverse();
                }
                self.m.q.extend(pairs);
            }
            Op::Quotient => self.quotient(i, op)?,
            Op::Restart { disk_seed } => self.restart(i, op, *disk_seed)?,
            Op::Fork => {
                // continue on the clone; the original must stay what it was
                let clone = self.ex.lib(&format!("{}:clone", id), || self.real.clone())?;
                let orig = std::mem::replace(&mut self.real, clone);
                self.forks.push((orig, self.m.clone(), i));
                self.ex.probe("forks");
            }
        }
        Ok(())
    }

    fn quotient(&mut self, i: usize, op: &Op) -> Result<(), Violation> {
        let n = self.m.nodes.len();
        let (rep, conflict) = self.m.classes();
        let before = self.real.clone();
        let before_bare = self.bare.clone();
        let had_pending = !self.m.q.is_empty();
        let id = self.id;
        let alias = i % 4 == 1; // the deprecated name `quotient_witness` now and then
        let (r, rb) = self.ex.lib(&format!("{}:quotient", id), || {
            let r = if alias {
                #[allow(deprecated)]
                self.real.quotient_witness()
            } else {
                self.real.quotient()
            };
            (r, self.bare.quotient())
        })?;
        match (r, rb) {
            (Err(_), Err(_)) => {
                if conflict.is_none() {
                    return self.v("quotient:spurious-failure", i, op, "quotient failed although every class of unified nodes carries one label".into());
                }
                // atomicity: exactly as it was before the call
                if self.real != before {
                    return self.v("quotient:failed-quotient-changed-the-diagram", i, op, format!("before: {:?}; after the failed call: {:?}", before, self.real));
                }
                if self.bare != before_bare {
                    return self.v("quotient:failed-quotient-changed-the-diagram", i, op, format!("(bare hypergraph) before: {:?}; after the failed call: {:?}", before_bare, self.bare));
                }
                // the consuming form converts "by quotienting": with a fibre holding two labels there
                // is no quotient to return, so it must not come back with a diagram (in which the
                // recorded unifications would have been dropped silently)
                let conv = before.clone();
                let came_back = self.ex.lib_try(crate::runner::DEFAULT_BUDGET, || {
                    let st = conv.to_strict();
                    (st.h.w.0.len(), st.h.x.0.len())
                });
                if let Ok((nn, ne)) = came_back {
                    return self.v("quotient:to_strict-returned-despite-label-conflict", i, op, format!("to_strict returned a strict diagram with {} nodes and {} hyperedges although the pending unifications of {:?} put two labels into one class", nn, ne, before));
                }
                self.ex.probe("quotient_failed");
                self.pending_failure = true;
            }
            (Ok(q), Ok(qb)) => {
                if let Some((a, b)) = conflict {
                    return self.v("quotient:missed-label-conflict", i, op, format!("quotient succeeded although nodes {} and {} are unified and carry labels {} and {}", a, b, self.m.nodes[a], self.m.nodes[b]));
                }
                for (name, q) in [("open", &q), ("bare", &qb)] {
                    let qt = &q.table.0;
                    let k = q.target;
                    if qt.len() != n {
                        return self.v("quotient:map-not-total", i, op, format!("({}) returned map has {} entries for {} nodes", name, qt.len(), n));
                    }
                    if qt.iter().any(|c| *c >= k) {
                        return self.v("quotient:map-out-of-range", i, op, format!("({}) returned map {:?} into {}", name, qt, k));
                    }
                    let mut hit = vec![false; k];
                    for c in qt {
                        hit[*c] = true;
                    }
                    if hit.iter().any(|h| !*h) {
                        return self.v("quotient:map-not-surjective", i, op, format!("({}) returned map {:?} into {} misses a new node", name, qt, k));
                    }
                    if let Err((a, b, together_in_q)) = crate::plain::same_partition(qt, &rep) {
                        return self.v(
                            if together_in_q { "quotient:merged-nodes-that-were-not-unified" } else { "quotient:unified-nodes-not-merged" },
                            i,
                            op,
                            format!("({}) nodes {} and {}: unified = {}, but q = {:?}", name, a, b, rep[a] == rep[b], qt),
                        );
                    }
                }
                if q.table.0 != qb.table.0 {
                    // both are valid; the model adopts each for its own structure.  Only count it.
                    self.ex.probe("open_and_bare_numberings_differ");
                }
                // adopt the numbering (never predicted) and update the model
                let adopt = |m: &Model, qt: &Vec<usize>, k: usize| -> Model {
                    let mut nn = vec![0; k];
                    for v in 0..n {
                        nn[qt[v]] = m.nodes[v];
                    }
                    Model {
                        nodes: nn,
                        edges: m.edges.clone(),
                        adj: m.adj.iter().map(|a| (a.0.iter().map(|v| qt[*v]).collect(), a.1.iter().map(|v| qt[*v]).collect())).collect(),
                        q: vec![],
                        s: m.s.iter().map(|v| qt[*v]).collect(),
                        t: m.t.iter().map(|v| qt[*v]).collect(),
                    }
                };
                let mb = adopt(&self.m, &qb.table.0, qb.target);
                if let Some(d) = mb.diff_h(&self.bare) {
                    return self.v("quotient:wrong-result", i, op, format!("(bare hypergraph) {}", d));
                }
                self.m = adopt(&self.m, &q.table.0, q.target);
                if let Some(d) = self.m.diff_open(&self.real) {
                    return self.v("quotient:wrong-result", i, op, d);
                }
                // the bare hypergraph continues with the open one's numbering so that one model serves both
                self.bare = self.real.hypergraph.clone();
                // quotienting again changes nothing
                let snap = self.real.clone();
                let q2 = self.ex.lib(&format!("{}:quotient", id), || self.real.quotient())?;
                match q2 {
                    Ok(q2) if self.real == snap && q2.table.0 == (0..q.target).collect::<Vec<_>>() && q2.target == q.target => {}
                    other => return self.v("quotient:not-idempotent", i, op, format!("second quotient returned {:?} and left {:?} (expected the identity and {:?})", other.map(|f| f.table.0), self.real, snap)),
                }
                self.ex.probe("quotient_ok");
                if self.pending_failure {
                    self.ex.probe("failed_then_repaired_then_succeeded");
                    self.pending_failure = false;
                }
                self.ex.probe_if(had_pending, "quotient_ok_with_pending_pairs");
                self.ex.probe_if(!had_pending, "quotient_with_empty_pending_list");
                let mut sizes = vec![0; n];
                for v in 0..n {
                    sizes[rep[v]] += 1;
                }
                self.ex.probe_if(sizes.iter().any(|s| *s >= 3), "class_of_three_or_more");
            }
            (a, b) => return self.v("quotient:open-and-bare-disagree", i, op, format!("open hypergraph quotient is_ok = {}, bare hypergraph quotient is_ok = {}", a.is_ok(), b.is_ok())),
        }
        Ok(())
    }

    fn restart(&mut self, i: usize, op: &Op, disk_seed: u64) -> Result<(), Violation> {
        let id = self.id;
        let mut disk = SimDisk::new(disk_seed, true);
        let w = self.ex.lib(&format!("{}:serialize", id), || serde_json::to_writer(&mut disk, &self.real).map_err(|e| e.to_string()))?;
        if let Err(e) = w {
            return self.v("json:serialisation-failed", i, op, e);
        }
        if let Err(e) = check_json_shape(&disk.data, &self.m) {
            return self.v("json:undocumented-shape", i, op, format!("{} in {}", e, String::from_utf8_lossy(&disk.data)));
        }
        // drop the value; only the disk survives
        self.real = OpenHypergraph::empty();
        // half of the restarts read through a small BufReader (then short reads really happen:
        // serde_json itself pulls one byte at a time)
        let cap = if disk_seed & 2 == 0 { 0 } else { 2 + (disk_seed >> 4) as usize % 30 };
        let back = self.ex.lib(&format!("{}:deserialize", id), || {
            if cap == 0 {
                serde_json::from_reader::<_, OpenHypergraph<L, L>>(&mut disk).map_err(|e| e.to_string())
            } else {
                serde_json::from_reader::<_, OpenHypergraph<L, L>>(std::io::BufReader::with_capacity(cap, &mut disk)).map_err(|e| e.to_string())
            }
        })?;
        match back {
            Err(e) => return self.v("json:round-trip-failed", i, op, format!("cannot read back what was written: {} ({})", e, String::from_utf8_lossy(&disk.data))),
            Ok(g) => self.real = g,
        }
        // bare hypergraph too
        let mut disk2 = SimDisk::new(disk_seed ^ 0x55, true);
        let r = self.ex.lib(&format!("{}:serialize", id), || {
            serde_json::to_writer(&mut disk2, &self.bare).map_err(|e| e.to_string())?;
            serde_json::from_reader::<_, Hypergraph<L, L>>(&mut disk2).map_err(|e| e.to_string())
        })?;
        match r {
            Err(e) => return self.v("json:round-trip-failed", i, op, format!("(bare hypergraph) {}", e)),
            Ok(b) => self.bare = b,
        }
        self.ex.probe("restarts");
        self.ex.probe_n("short_writes", disk.short_writes + disk2.short_writes);
        self.ex.probe_n("short_reads", disk.short_reads + disk2.short_reads);
        self.ex.probe_n("eintr", disk.eintr + disk2.eintr);
        // not an oracle: does deserialisation refuse a truncated / bit-flipped file?
        if disk.data.len() > 2 {
            let mut bad = disk.data.clone();
            let cut = (disk_seed as usize) % bad.len();
            if disk_seed & 1 == 0 {
                bad.truncate(cut);
            } else {
                bad[cut] ^= 1 << ((disk_seed >> 8) % 8);
            }
            let refused = self.ex.lib_try(crate::runner::DEFAULT_BUDGET, || serde_json::from_slice::<OpenHypergraph<L, L>>(&bad).is_err());
            self.ex.probe(match refused {
                Ok(true) => "corrupted_file_refused",
                Ok(false) => "corrupted_file_accepted",
                Err(_) => "corrupted_file_panicked",
            });
        }
        Ok(())
    }

    fn after_step(&mut self, i: usize, op: &Op) -> Result<(), Violation> {
        if let Some(d) = self.m.diff_open(&self.real) {
            return self.v("history:diverged-from-list-model", i, op, d);
        }
        if let Some(d) = self.m.diff_h(&self.bare) {
            return self.v("history:diverged-from-list-model", i, op, format!("(bare hypergraph) {}", d));
        }
        self.ex.states.push(self.m.hash());
        Ok(())
    }
}

pub fn run_history(ex: &mut Exec, id: &'static str, c: &Case) -> Result<(), Violation> {
    let mut fp = Fp::new();
    for op in &c.ops {
        fp.add(crate::rng::hash_str(&format!("{:?}", op)));
    }
    ex.workload_fp = fp.0;
    ex.nontrivial = c.ops.iter().any(|o| !matches!(o, Op::Fork | Op::Restart { .. }));
    let mut m = Machine { ex, id, real: OpenHypergraph::empty(), bare: Hypergraph::empty(), m: Model::default(), forks: vec![], pending_failure: false };
    for (i, op) in c.ops.iter().enumerate() {
        m.step(i, op)?;
        m.after_step(i, op)?;
    }
    for (orig, snap, at) in std::mem::take(&mut m.forks) {
        if let Some(d) = snap.diff_open(&orig) {
            return viol(&format!("{}:fork:original-changed", id), format!("the value cloned at step {} changed afterwards: {}", at, d));
        }
    }
    Ok(())
}

// ------------------------------------------------------------------------- generation

pub fn gen_history(r: &mut Rng, tier: Tier, mode: Mode) -> Case {
    let nl = r.range(1, 3) as L;
    let max_steps = match (mode, tier) {
        (Mode::Quotient, Tier::Quick) => 30,
        (Mode::Quotient, Tier::Thorough) => 40,
        (Mode::Editing, Tier::Quick) => 40,
        (Mode::Editing, Tier::Thorough) => 60,
    };
    // most histories are short
    let steps = if r.chance(2, 3) { r.range(1, 10) } else { r.range(1, max_steps) };
    // a few histories grow unusually large diagrams
    let huge = r.chance(1, if tier == Tier::Thorough { 25 } else { 120 });
    let node_cap: usize = if huge { 48 } else { 12 };
    let steps = if huge { r.range(30, 90) } else { steps };
    let mut m = Model::default();
    let mut ops = vec![];
    let pick_nodes = |r: &mut Rng, n: usize, max: usize| -> Vec<usize> {
        if n == 0 {
            vec![]
        } else {
            (0..r.below(max + 1)).map(|_| r.below(n)).collect()
        }
    };
    // a quarter of the unusually large histories start from a diagram past the usual power-of-two
    // thresholds (64 / 128 / 256 nodes, hyperedges, pending unifications, interface wires)
    let giant = huge && r.chance(1, 4);
    let node_cap = if giant { 400 } else { node_cap };
    if giant {
        let k = *r.pick(&[70usize, 140, 270]);
        for _ in 0..k {
            let op = Op::NewNode(r.below(nl as usize) as L);
            apply_model(&mut m, &op);
            ops.push(op);
        }
        for _ in 0..*r.pick(&[8usize, 70, 140]) {
            let op = Op::NewEdge { l: r.below(3) as L, s: pick_nodes(r, k, 3), t: pick_nodes(r, k, 3) };
            apply_model(&mut m, &op);
            ops.push(op);
        }
        for _ in 0..*r.pick(&[0usize, 20, 70, 140, 270]) {
            let x = r.below(k);
            let same: Vec<usize> = (0..k).filter(|v| m.nodes[*v] == m.nodes[x]).collect();
            let y = if r.chance(9, 10) { *r.pick(&same) } else { r.below(k) };
            let op = Op::Unify(x, y);
            apply_model(&mut m, &op);
            ops.push(op);
        }
        if r.chance(1, 2) {
            let op = Op::SetSources((0..*r.pick(&[70usize, 140, 270])).map(|_| r.below(k)).collect());
            apply_model(&mut m, &op);
            ops.push(op);
        }
        if r.chance(1, 2) {
            let op = Op::SetTargets((0..*r.pick(&[70usize, 140, 270])).map(|_| r.below(k)).collect());
            apply_model(&mut m, &op);
            ops.push(op);
        }
    }
    let mut repair_next = false;
    for _ in 0..steps {
        let n = m.nodes.len();
        let ne = m.edges.len();
        let too_big = n >= node_cap;
        let w = match mode {
            // weights: node, edge, operation, add src/tgt, unify, iface, delnodes, deledges, map, with, quotient, restart, fork
            Mode::Quotient => [3, 2, 3, 1, 6, 2, 1, 1, 1, 1, 6, 1, 1],
            Mode::Editing => [3, 3, 3, 3, 3, 3, 4, 3, 2, 3, 0, 2, 1],
        };
        let total: usize = w.iter().sum();
        let mut k = r.below(total);
        let mut which = 0;
        for (i, x) in w.iter().enumerate() {
            if k < *x {
                which = i;
                break;
            }
            k -= x;
        }
        if repair_next {
            repair_next = false;
            // repair the conflict found by the previous (failed) quotient, then quotient again
            let (rep, conflict) = m.classes();
            if let Some((a, b)) = conflict {
                let _ = rep;
                let op = match r.below(3) {
                    0 => Op::RelabelAll(0),
                    1 => Op::WithNodes { v: b, l: m.nodes[a], len_delta: 0 },
                    _ => Op::DeleteNodes(vec![b]),
                };
                apply_model(&mut m, &op);
                ops.push(op);
                apply_model(&mut m, &Op::Quotient);
                ops.push(Op::Quotient);
                continue;
            }
        }
        let op = match which {
            0 if !too_big => Op::NewNode(r.below(nl as usize) as L),
            1 if n > 0 => Op::NewEdge { l: r.below(3) as L, s: pick_nodes(r, n, 3), t: pick_nodes(r, n, 3) },
            2 if !too_big => Op::NewOperation { l: r.below(3) as L, st: (0..r.below(3)).map(|_| r.below(nl as usize) as L).collect(), tt: (0..r.below(3)).map(|_| r.below(nl as usize) as L).collect() },
            3 if ne > 0 && !too_big => {
                if r.chance(1, 2) {
                    Op::AddEdgeSource { e: r.below(ne), l: r.below(nl as usize) as L }
                } else {
                    Op::AddEdgeTarget { e: r.below(ne), l: r.below(nl as usize) as L }
                }
            }
            4 if n > 0 => {
                let a = r.below(n);
                // prefer same-label partners (so that successful quotients are frequent), allow self pairs
                let same: Vec<usize> = (0..n).filter(|v| m.nodes[*v] == m.nodes[a]).collect();
                let b = if r.chance(2, 3) { *r.pick(&same) } else { r.below(n) };
                Op::Unify(a, b)
            }
            5 if n > 0 => {
                if r.chance(1, 2) {
                    Op::SetSources(pick_nodes(r, n, 4))
                } else {
                    Op::SetTargets(pick_nodes(r, n, 4))
                }
            }
            6 => {
                // also on a diagram without nodes (then every identifier is out of range)
                let mut d = pick_nodes(r, n, 3);
                if n == 0 && r.chance(1, 2) {
                    d.push(r.below(2));
                }
                if !d.is_empty() && r.chance(1, 4) {
                    let x = d[0];
                    d.push(x); // duplicate
                }
                if r.chance(1, 8) {
                    d.push(n + r.below(3)); // out of range
                }
                // bias toward interface nodes and unified nodes
                if r.chance(1, 4) {
                    if let Some(v) = m.s.first().or(m.t.first()).or(m.q.first().map(|p| &p.0)) {
                        d.push(*v);
                    }
                }
                Op::DeleteNodes(d)
            }
            7 => {
                // also on a diagram without hyperedges (then every identifier is out of range)
                let mut d: Vec<usize> = if ne == 0 { vec![] } else { (0..r.below(3)).map(|_| r.below(ne)).collect() };
                if r.chance(1, 8) || (ne == 0 && r.chance(1, 2)) {
                    d.push(ne + r.below(2));
                }
                if !d.is_empty() && r.chance(1, 4) {
                    let x = d[0];
                    d.push(x);
                }
                Op::DeleteEdges(d)
            }
            8 => {
                if r.chance(1, 2) {
                    Op::MapNodes { k: r.below(3) as L, modulus: nl }
                } else {
                    Op::MapEdges { k: r.below(3) as L, modulus: 3 }
                }
            }
            9 => {
                let delta = if r.chance(1, 3) { if r.chance(1, 2) { 1 } else { -1 } } else { 0 };
                if r.chance(1, 2) {
                    Op::WithNodes { v: r.below(n.max(1)), l: r.below(nl as usize) as L, len_delta: delta }
                } else {
                    Op::WithEdges { e: r.below(ne.max(1)), l: r.below(3) as L, len_delta: delta }
                }
            }
            10 => Op::Quotient,
            11 => Op::Restart { disk_seed: r.next() },
            12 => Op::Fork,
            _ => Op::NewNode(r.below(nl as usize) as L),
        };
        if op == Op::Quotient && m.classes().1.is_some() && r.chance(2, 3) {
            repair_next = true;
        }
        apply_model(&mut m, &op);
        ops.push(op);
    }
    Case { ops }
}

/// generation-time model update (numbering after a quotient: classes by smallest member; only
/// used to keep later identifiers plausible — the machine never relies on it)
fn apply_model(m: &mut Model, op: &Op) {
    let n = m.nodes.len();
    let ne = m.edges.len();
    match op {
        Op::NewNode(l) => m.nodes.push(*l),
        Op::NewEdge { l, s, t } => {
            m.edges.push(*l);
            m.adj.push((s.clone(), t.clone()));
        }
        Op::NewOperation { l, st, tt } => {
            m.adj.push(((n..n + st.len()).collect(), (n + st.len()..n + st.len() + tt.len()).collect()));
            m.nodes.extend(st.iter().copied());
            m.nodes.extend(tt.iter().copied());
            m.edges.push(*l);
        }
        Op::AddEdgeSource { e, l } => {
            m.nodes.push(*l);
            m.adj[*e].0.push(n);
        }
        Op::AddEdgeTarget { e, l } => {
            m.nodes.push(*l);
            m.adj[*e].1.push(n);
        }
        Op::Unify(a, b) => m.q.push((*a, *b)),
        Op::SetSources(s) => m.s = s.clone(),
        Op::SetTargets(t) => m.t = t.clone(),
        Op::DeleteNodes(d) => {
            if d.iter().all(|v| *v < n) {
                m.delete_nodes(d);
            }
        }
        Op::DeleteEdges(d) => {
            if d.iter().all(|e| *e < ne) {
                let keep: Vec<usize> = (0..ne).filter(|e| !d.contains(e)).collect();
                m.edges = keep.iter().map(|e| m.edges[*e]).collect();
                m.adj = keep.iter().map(|e| m.adj[*e].clone()).collect();
            }
        }
        Op::MapNodes { k, modulus } => m.nodes = m.nodes.iter().map(|l| (l + k) % (*modulus).max(1)).collect(),
        Op::MapEdges { k, modulus } => m.edges = m.edges.iter().map(|l| (l + k) % (*modulus).max(1)).collect(),
        Op::RelabelAll(l) => m.nodes = vec![*l; n],
        Op::WithNodes { v, l, len_delta } => {
            if *len_delta == 0 && *v < n {
                m.nodes[*v] = *l;
            }
        }
        Op::WithEdges { e, l, len_delta } => {
            if *len_delta == 0 && *e < ne {
                m.edges[*e] = *l;
            }
        }
        Op::Quotient => {
            let (rep, conflict) = m.classes();
            if conflict.is_none() {
                let mut idx = vec![usize::MAX; n];
                let mut nodes = vec![];
                let mut q = vec![0; n];
                for v in 0..n {
                    if idx[rep[v]] == usize::MAX {
                        idx[rep[v]] = nodes.len();
                        nodes.push(m.nodes[v]);
                    }
                    q[v] = idx[rep[v]];
                }
                m.nodes = nodes;
                for a in m.adj.iter_mut() {
                    a.0 = a.0.iter().map(|v| q[*v]).collect();
                    a.1 = a.1.iter().map(|v| q[*v]).collect();
                }
                m.s = m.s.iter().map(|v| q[*v]).collect();
                m.t = m.t.iter().map(|v| q[*v]).collect();
                m.q.clear();
            }
        }
        Op::Restart { .. } | Op::Fork | Op::Bulk { .. } => {}
    }
}

pub fn shrink_history(c: &Case) -> Vec<Case> {
    let mut out = vec![];
    let n = c.ops.len();
    // drop a suffix, then single steps
    if n > 1 {
        out.push(Case { ops: c.ops[..n / 2].to_vec() });
        out.push(Case { ops: c.ops[..n - 1].to_vec() });
    }
    for i in 0..n {
        let mut ops = c.ops.clone();
        ops.remove(i);
        out.push(Case { ops });
    }
    // simplify arguments
    for i in 0..n {
        let simpler: Vec<Op> = match &c.ops[i] {
            Op::NewEdge { l, s, t } => {
                let mut v = vec![];
                if !s.is_empty() {
                    v.push(Op::NewEdge { l: *l, s: s[..s.len() - 1].to_vec(), t: t.clone() });
                }
                if !t.is_empty() {
                    v.push(Op::NewEdge { l: *l, s: s.clone(), t: t[..t.len() - 1].to_vec() });
                }
                v
            }
            Op::NewOperation { l, st, tt } => {
                let mut v = vec![];
                if !st.is_empty() {
                    v.push(Op::NewOperation { l: *l, st: st[..st.len() - 1].to_vec(), tt: tt.clone() });
                }
                if !tt.is_empty() {
                    v.push(Op::NewOperation { l: *l, st: st.clone(), tt: tt[..tt.len() - 1].to_vec() });
                }
                v
            }
            Op::SetSources(s) if !s.is_empty() => vec![Op::SetSources(s[..s.len() - 1].to_vec())],
            Op::SetTargets(s) if !s.is_empty() => vec![Op::SetTargets(s[..s.len() - 1].to_vec())],
            Op::DeleteNodes(d) if d.len() > 1 => (0..d.len()).map(|k| { let mut e = d.clone(); e.remove(k); Op::DeleteNodes(e) }).collect(),
            Op::DeleteEdges(d) if d.len() > 1 => (0..d.len()).map(|k| { let mut e = d.clone(); e.remove(k); Op::DeleteEdges(e) }).collect(),
            Op::NewNode(l) if *l != 0 => vec![Op::NewNode(0)],
            _ => vec![],
        };
        for s in simpler {
            let mut ops = c.ops.clone();
            ops[i] = s;
            out.push(Case { ops });
        }
    }
    out
}

pub fn components() -> Value {
    json!({
        "real_code": ["open_hypergraphs::lax::{Hypergraph, OpenHypergraph} builder, deletion, relabelling, quotient (through the Vec backend's coequalizer), serde derives", "serde_json (produces and parses the bytes)"],
        "stubs": ["plain list model (Vec-of-Vecs) as reference", "SimDisk: in-memory reader/writer with seeded short writes, short reads and ErrorKind::Interrupted"],
        "note": "the lax module is hard-wired to the deterministic VecKind: there is no device-schedule dimension here; the simulated dimensions are the operation history, failing operations at arbitrary points, restart through the simulated disk and fork",
    })
}

// ------------------------------------------------------------------------- the two checks

pub struct C09;
pub struct C11;

impl Check for C09 {
    type Case = Case;
    const ID: &'static str = "C09";
    fn runs(tier: Tier) -> u64 {
        crate::runner::scaled(1_200_000, tier)
    }
    fn generate(r: &mut Rng, tier: Tier) -> Case {
        gen_history(r, tier, Mode::Quotient)
    }
    fn execute(c: &Case, ex: &mut Exec) -> Result<(), Violation> {
        run_history(ex, "C09", c)
    }
    fn shrink(c: &Case) -> Vec<Case> {
        shrink_history(c)
    }
    fn stress(tier: Tier) -> Vec<Case> {
        let n = if tier == Tier::Thorough { 600_000 } else { 200_000 };
        vec![
            Case { ops: vec![Op::NewNode(0), Op::Bulk { nodes: n, label: 0, descending: false }, Op::SetSources(vec![0, 1]), Op::Quotient] },
            Case { ops: vec![Op::Bulk { nodes: n, label: 1, descending: true }, Op::SetTargets(vec![5, 0]), Op::Quotient, Op::Quotient] },
        ]
    }
    fn rule() -> &'static str {
        "Each run is one generated operation history (2/3 of them <= 10 steps, the rest up to 30/40) on a real lax::OpenHypergraph and, in lock step, a bare lax::Hypergraph, over a label alphabet of 1-3 node labels: new node/edge/operation, add source/target, unify (2/3 same-label partner, self pairs, repeats, chains; 1/3 arbitrary partner = possible conflict), interface assignment, deletions, relabelling, quotient (weight 6 of 29), restart through the simulated disk, fork. After a quotient that the model predicts to fail, 2/3 of the histories continue with a repair (relabel all / relabel the offender / delete the offender) and quotient again. Oracle after every step: all public fields equal the list model; on Ok(q): q total, surjective, fibres exactly the union-find classes of the pending pairs (partition equality), diagram = model mapped through q (numbering adopted, never predicted), pending list empty, second quotient is the identity and changes nothing; Err iff a class holds two labels, and then the diagram equals the pre-call clone field for field and the consuming form to_strict does not come back with a diagram. Non-trivial iff the history has a mutating step; distinct = distinct history fingerprints; states = distinct model-state hashes observed after steps."
    }
    fn assumptions() -> Vec<&'static str> {
        vec![
            "new_edge, unify, add_edge_* only receive valid identifiers (the property promises nothing for invalid ones)",
            "the numbering of quotient classes is free: the returned map is validated as a surjection with the right fibres and then adopted by the model",
            "no device-schedule dimension: lax is hard-wired to VecKind",
        ]
    }
    fn required_probes() -> Vec<&'static str> {
        vec!["quotient_ok", "quotient_failed", "failed_then_repaired_then_succeeded", "quotient_ok_with_pending_pairs", "quotient_with_empty_pending_list", "class_of_three_or_more", "restarts", "forks"]
    }
    fn components() -> Value {
        components()
    }
}

impl Check for C11 {
    type Case = Case;
    const ID: &'static str = "C11";
    fn runs(tier: Tier) -> u64 {
        crate::runner::scaled(1_000_000, tier)
    }
    fn generate(r: &mut Rng, tier: Tier) -> Case {
        gen_history(r, tier, Mode::Editing)
    }
    fn execute(c: &Case, ex: &mut Exec) -> Result<(), Violation> {
        run_history(ex, "C11", c)
    }
    fn shrink(c: &Case) -> Vec<Case> {
        shrink_history(c)
    }
    fn rule() -> &'static str {
        "Each run is one generated builder history (2/3 of them <= 10 steps, the rest up to 40/60) on a real lax::OpenHypergraph and a bare lax::Hypergraph in lock step: new node, new edge (existing ids, repeats, zero arity), new operation, add edge source/target, unify, interface assignment through the public fields, delete nodes / delete edges (valid, duplicate, empty, out-of-range id lists, also on diagrams without nodes / hyperedges; biased toward interface and unified nodes; the deprecated aliases now and then), map_nodes/map_edges, with_nodes/with_edges (right and wrong lengths), restart (serde_json::to_writer into a simulated disk with seeded short writes and EINTR, drop, from_reader with short reads and EINTR, continue on the restored value; JSON keys and bare-integer ids checked against README), fork (clone and continue; the original must not change). Oracle after every step: all six public fields equal the list model, returned ids = next fresh index, returned renumbering = the model's monotone renumbering, out-of-range deletions rejected. Non-trivial iff the history has a mutating step; distinct = distinct history fingerprints; states = distinct model-state hashes observed after steps."
    }
    fn assumptions() -> Vec<&'static str> {
        vec![
            "the diagram after a rejected deletion is not constrained (the history continues from the pre-call clone)",
            "the bytes on the persistence seam are produced and parsed by serde_json; what belongs to this repository is the derive surface (field names, bounds, NodeId/EdgeId encoding)",
            "behaviour on truncated or bit-flipped files is recorded as a probe, not asserted",
        ]
    }
    fn required_probes() -> Vec<&'static str> {
        vec!["delete_nodes_done", "delete_edges_done", "delete_out_of_range_rejected", "delete_with_duplicates", "with_wrong_length_refused", "restarts", "short_writes", "short_reads", "eintr", "forks"]
    }
    fn components() -> Value {
        components()
    }
}
