//! C06 — finite functions form a category with coproducts and coequalizers.
//!
//! Simulation targets: `coequalizer` under every component numbering, `coequalizer_universal`
//! under every scatter filler.  The remaining clauses consume no open choice; they are evaluated
//! on both devices against functions-as-Vec and reported as control.

use super::components_s1;
use crate::dev::B;
use crate::dev_impl;
use crate::plain::{UnionFind, L};
use crate::rng::{Fp, Rng};
use crate::runner::{viol, Check, Exec, Tier, Violation};
use crate::simkind::SimKind;
use open_hypergraphs::array::vec::VecKind;
use open_hypergraphs::category::{Arrow, Coproduct, Monoidal, SymmetricMonoidal};
use open_hypergraphs::finite_function::{coequalizer_universal, FiniteFunction};
use serde::{Deserialize, Serialize};

pub type Fun = (Vec<usize>, usize);

#[derive(Serialize, Deserialize, Clone, Debug)]
pub struct Case {
    /// parallel pair (or not: lengths / codomains may differ) for the coequalizer
    pub f: Fun,
    pub g: Fun,
    /// a surjection q : B -> Q given directly (second source of quotient maps)
    pub q: Fun,
    /// label array on B = q's domain (right or wrong length; constant on fibres or not)
    pub labels: Vec<L>,
    /// finite function on B = q's domain
    pub h: Fun,
    /// general purpose functions for the control clauses
    pub p: Fun,
    pub r: Fun,
    pub sizes: Fun,
    pub idx: Fun,
    pub a: usize,
    pub b: usize,
    pub x: usize,
    pub schedules: usize,
}

pub struct C06;

#[derive(Debug, PartialEq, Clone)]
pub enum Val {
    F(Option<Fun>),
    Lab(Option<Vec<L>>),
    Bool(bool),
}

dev_impl! {
    fn c06_un(f: Option<FiniteFunction<K>>) -> Val {
        Val::F(f.map(|f| Self::un_ff(&f)))
    }
    pub fn c06_observe(c: &Case) -> Vec<(&'static str, Val)> {
        let mk = |f: &Fun| Self::ff(f.0.clone(), f.1);
        let mut out: Vec<(&'static str, Val)> = vec![];
        let (f, g, q, h, p, r, sizes, idx) = (mk(&c.f), mk(&c.g), mk(&c.q), mk(&c.h), mk(&c.p), mk(&c.r), mk(&c.sizes), mk(&c.idx));
        // --- clauses that consume an open device choice
        let coeq = f.coequalizer(&g);
        out.push(("coequalizer", Self::c06_un(coeq.clone())));
        // universal map through the coequalizer just computed (labels and finite function must have
        // the codomain of f as domain for this to be defined)
        if let Some(cq) = &coeq {
            out.push(("universal-through-coequalizer-labels", Val::Lab(coequalizer_universal::<K, L>(cq, &K::arr(c.labels.clone())).map(|u| K::un(&u)))));
            out.push(("universal-through-coequalizer-ff", Self::c06_un(cq.coequalizer_universal(&h))));
        }
        out.push(("universal-labels", Val::Lab(coequalizer_universal::<K, L>(&q, &K::arr(c.labels.clone())).map(|u| K::un(&u)))));
        out.push(("universal-ff", Self::c06_un(q.coequalizer_universal(&h))));
        // --- control clauses
        out.push(("compose", Self::c06_un(p.compose(&r))));
        out.push(("compose-sugar", Self::c06_un(&p >> &r)));
        out.push(("compose-labels", Val::Lab((&p >> &Self::sf(c.labels.clone())).map(|s| Self::un_sf(&s)))));
        out.push(("identity", Self::c06_un(Some(FiniteFunction::<K>::identity(c.a)))));
        out.push(("initial", Self::c06_un(Some(FiniteFunction::<K>::initial(c.a)))));
        out.push(("to_initial", Self::c06_un(Some(p.to_initial()))));
        out.push(("terminal", Self::c06_un(Some(FiniteFunction::<K>::terminal(c.a)))));
        out.push(("constant", Self::c06_un(Some(FiniteFunction::<K>::constant(c.a, c.x, c.b)))));
        out.push(("inj0", Self::c06_un(Some(FiniteFunction::<K>::inj0(c.a, c.b)))));
        out.push(("inj1", Self::c06_un(Some(FiniteFunction::<K>::inj1(c.a, c.b)))));
        out.push(("inject0", Self::c06_un(Some(p.inject0(c.b)))));
        out.push(("inject1", Self::c06_un(Some(p.inject1(c.a)))));
        out.push(("coproduct", Self::c06_un(p.coproduct(&r))));
        out.push(("coproduct-sugar", Self::c06_un(&p + &r)));
        out.push(("tensor", Self::c06_un(Some(p.tensor(&r)))));
        out.push(("tensor-sugar", Self::c06_un(Some(&p | &r))));
        // the monoidal unit is the empty set: tensoring with its identity changes nothing
        let unit = FiniteFunction::<K>::identity(<FiniteFunction<K> as Monoidal>::unit());
        out.push(("tensor-unit-right", Self::c06_un(Some(p.tensor(&unit)))));
        out.push(("tensor-unit-left", Self::c06_un(Some(unit.tensor(&p)))));
        out.push(("initial-object", Self::c06_un(Some(FiniteFunction::<K>::identity(<FiniteFunction<K> as Coproduct>::initial_object())))));
        out.push(("source-target", Val::F(Some((vec![p.source(), p.target(), <FiniteFunction<K> as Arrow>::source(&r), <FiniteFunction<K> as Arrow>::target(&r)], 0)))));
        // equality of finite functions is equality of tables and codomains
        out.push(("equality", Val::F(Some((vec![(p == p.clone()) as usize, (p == r) as usize, (r == p) as usize], 0)))));
        out.push(("twist", Self::c06_un(Some(<FiniteFunction<K> as SymmetricMonoidal>::twist(c.a, c.b)))));
        out.push(("transpose", Self::c06_un(Some(FiniteFunction::<K>::transpose(c.a, c.b)))));
        out.push(("cumulative_sum", Self::c06_un(Some(sizes.cumulative_sum()))));
        out.push(("injections", Self::c06_un(sizes.injections(&idx))));
        out.push(("is_injective", Val::Bool(p.is_injective())));
        // a table is (the table of) a function into {0..target} iff every entry is below the target
        out.push(("new-accepts-exactly-functions", Val::Bool(FiniteFunction::<K>::new(K::ix(c.p.0.clone()), c.x).is_some())));
        out.push(("new-accepts-exactly-functions-b", Val::Bool(FiniteFunction::<K>::new(K::ix(c.r.0.clone()), c.a).is_some())));
        // the semifinite wrapper: finite ; finite, finite ; label array, identities, sources and targets
        {
            use open_hypergraphs::semifinite::{SemifiniteArrow, SemifiniteObject};
            let (pa, ra): (SemifiniteArrow<K, L>, SemifiniteArrow<K, L>) = (p.clone().into(), r.clone().into());
            let la: SemifiniteArrow<K, L> = Self::sf(c.labels.clone()).into();
            let un = |a: Option<SemifiniteArrow<K, L>>| -> Val {
                match a {
                    Some(SemifiniteArrow::Finite(f)) => Val::F(Some(Self::un_ff(&f))),
                    Some(SemifiniteArrow::Semifinite(s)) => Val::Lab(Some(Self::un_sf(&s))),
                    Some(SemifiniteArrow::Identity) => Val::Bool(true),
                    None => Val::F(None),
                }
            };
            out.push(("semifinite-compose-finite", un(pa.compose(&ra))));
            out.push(("semifinite-compose-labels", match pa.compose(&la) { None => Val::Lab(None), x => un(x) }));
            out.push(("semifinite-labels-not-composable-on-the-left", Val::Bool(la.compose(&pa).is_none())));
            // a finite function ends in a finite set, the wrapper's `Identity` lives on the label set:
            // codomain and domain disagree (nothing is asserted about label-array ; Identity)
            out.push(("semifinite-finite-then-label-set-identity-not-composable", Val::Bool(pa.compose(&SemifiniteArrow::Identity).is_none())));
            out.push(("semifinite-identity", un(Some(<SemifiniteArrow<K, L> as Arrow>::identity(SemifiniteObject::Finite(c.a))))));
            let obj = |o: SemifiniteObject<K, L>| -> Option<usize> { match o { SemifiniteObject::Finite(n) => Some(n), SemifiniteObject::Set(_) => None } };
            out.push(("semifinite-types", Val::F(Some((vec![obj(pa.source()).unwrap_or(usize::MAX), obj(pa.target()).unwrap_or(usize::MAX), obj(la.source()).unwrap_or(usize::MAX), obj(la.target()).map_or(0, |_| 1)], 0)))));
        }
        out
    }
}

fn classes_of(f: &Fun, g: &Fun) -> Vec<usize> {
    let mut uf = UnionFind::new(f.1);
    for (a, b) in f.0.iter().zip(g.0.iter()) {
        uf.union(*a, *b);
    }
    (0..f.1).map(|v| uf.find(v)).collect()
}

/// reference universal map: defined iff `vals` has one entry per element of q's domain and is
/// constant on every fibre of the surjection q
fn universal_ref<T: Clone + PartialEq>(q: &Fun, vals: &[T]) -> Option<Vec<T>> {
    if q.0.len() != vals.len() {
        return None;
    }
    let mut u: Vec<Option<T>> = vec![None; q.1];
    for (i, c) in q.0.iter().enumerate() {
        match &u[*c] {
            None => u[*c] = Some(vals[i].clone()),
            Some(v) if *v != vals[i] => return None,
            _ => {}
        }
    }
    // q is surjective by construction of the workload
    u.into_iter().collect()
}

fn judge(ex: &mut Exec, c: &Case, cfg: &str, obs: &[(&'static str, Val)]) -> Result<(), Violation> {
    let bad = |name: &str, got: &Val, want: String| -> Result<(), Violation> { viol(&format!("C06:{}", name), format!("[{}] got {:?}, expected {} for {:?}", cfg, got, want, c)) };
    let mut coeq: Option<Fun> = None;
    for (name, got) in obs {
        match *name {
            "coequalizer" => {
                let parallel = c.f.0.len() == c.g.0.len() && c.f.1 == c.g.1;
                match got {
                    Val::F(None) if !parallel => ex.probe("coequalizer_of_non_parallel_refused"),
                    Val::F(Some(q)) if parallel => {
                        let n = c.f.1;
                        if q.0.len() != n || q.0.iter().any(|v| *v >= q.1) {
                            return bad("coequalizer:not-a-function-on-the-codomain", got, format!("a map {} -> Q", n));
                        }
                        let mut hit = vec![false; q.1];
                        for v in &q.0 {
                            hit[*v] = true;
                        }
                        if hit.iter().any(|h| !*h) {
                            return bad("coequalizer:not-surjective", got, "a surjection".into());
                        }
                        let rep = classes_of(&c.f, &c.g);
                        if let Err((a, b, together_in_q)) = crate::plain::same_partition(&q.0, &rep) {
                            return bad(if together_in_q { "coequalizer:identifies-unrelated-elements" } else { "coequalizer:does-not-identify-f(i)-with-g(i)" }, got, format!("elements {} and {} {} be identified", a, b, if together_in_q { "must not" } else { "must" }));
                        }
                        coeq = Some(q.clone());
                        ex.probe("coequalizers_checked");
                    }
                    _ => return bad("coequalizer:definedness", got, format!("{} (parallel = {})", if parallel { "Some" } else { "None" }, parallel)),
                }
            }
            "universal-through-coequalizer-labels" | "universal-labels" => {
                let q = if *name == "universal-labels" { c.q.clone() } else { coeq.clone().expect("coequalizer judged first") };
                let want = universal_ref(&q, &c.labels);
                match (got, &want) {
                    (Val::Lab(None), None) => ex.probe("universal_map_absent_reported"),
                    (Val::Lab(Some(u)), Some(_)) => {
                        // q ; u must be the given labelling
                        let back: Vec<L> = q.0.iter().map(|cl| u.get(*cl).copied().unwrap_or(L::MAX)).collect();
                        if u.len() != q.1 || back != c.labels {
                            return bad("universal-map:does-not-factor", got, format!("u with q;u = {:?}", c.labels));
                        }
                        ex.probe("universal_map_found");
                    }
                    _ => return bad("universal-map:existence", got, format!("{:?}", want)),
                }
            }
            "universal-through-coequalizer-ff" | "universal-ff" => {
                let q = if *name == "universal-ff" { c.q.clone() } else { coeq.clone().expect("coequalizer judged first") };
                let want = universal_ref(&q, &c.h.0);
                match (got, &want) {
                    (Val::F(None), None) => ex.probe("universal_map_absent_reported"),
                    (Val::F(Some(u)), Some(_)) => {
                        let back: Vec<usize> = q.0.iter().map(|cl| u.0.get(*cl).copied().unwrap_or(usize::MAX)).collect();
                        if u.0.len() != q.1 || u.1 != c.h.1 || back != c.h.0 {
                            return bad("universal-map:does-not-factor", got, format!("u : Q -> {} with q;u = {:?}", c.h.1, c.h.0));
                        }
                        ex.probe("universal_map_found");
                    }
                    _ => return bad("universal-map:existence", got, format!("{:?}", want)),
                }
            }
            _ => {
                let want = control_ref(c, name);
                if *got != want {
                    return bad(name, got, format!("{:?}", want));
                }
            }
        }
    }
    Ok(())
}

/// set-theoretic meaning of the control clauses, on functions-as-Vec
fn control_ref(c: &Case, name: &str) -> Val {
    let (p, r) = (&c.p, &c.r);
    let (a, b) = (c.a, c.b);
    match name {
        "compose" | "compose-sugar" => Val::F(if p.1 == r.0.len() { Some((p.0.iter().map(|i| r.0[*i]).collect(), r.1)) } else { None }),
        "compose-labels" => Val::Lab(if p.1 == c.labels.len() { Some(p.0.iter().map(|i| c.labels[*i]).collect()) } else { None }),
        "identity" => Val::F(Some(((0..a).collect(), a))),
        "initial" => Val::F(Some((vec![], a))),
        "to_initial" => Val::F(Some((vec![], p.1))),
        "terminal" => Val::F(Some((vec![0; a], 1))),
        "constant" => Val::F(Some((vec![c.x; a], c.x + 1 + b))),
        "inj0" => Val::F(Some(((0..a).collect(), a + b))),
        "inj1" => Val::F(Some(((a..a + b).collect(), a + b))),
        "inject0" => Val::F(Some((p.0.clone(), p.1 + b))),
        "inject1" => Val::F(Some((p.0.iter().map(|v| v + a).collect(), a + p.1))),
        "coproduct" | "coproduct-sugar" => Val::F(if p.1 == r.1 { Some((p.0.iter().chain(r.0.iter()).copied().collect(), p.1)) } else { None }),
        "tensor" | "tensor-sugar" => Val::F(Some((p.0.iter().copied().chain(r.0.iter().map(|v| v + p.1)).collect(), p.1 + r.1))),
        "tensor-unit-right" | "tensor-unit-left" => Val::F(Some(p.clone())),
        "initial-object" => Val::F(Some((vec![], 0))),
        "source-target" => Val::F(Some((vec![p.0.len(), p.1, r.0.len(), r.1], 0))),
        "equality" => Val::F(Some((vec![1, (p == r) as usize, (r == p) as usize], 0))),
        "twist" => Val::F(Some(((0..a).map(|i| b + i).chain(0..b).collect(), a + b))),
        "transpose" => {
            // matrix with b rows and a columns, row-major, sent to its transpose
            let mut t = vec![0; a * b];
            for row in 0..b {
                for col in 0..a {
                    t[row * a + col] = col * b + row;
                }
            }
            Val::F(Some((t, a * b)))
        }
        "cumulative_sum" => {
            let mut acc = 0;
            let mut t = vec![];
            for k in &c.sizes.0 {
                t.push(acc);
                acc += k;
            }
            Val::F(Some((t, acc)))
        }
        "injections" => {
            if c.idx.1 != c.sizes.0.len() {
                return Val::F(None);
            }
            let mut off = vec![0];
            for k in &c.sizes.0 {
                off.push(off.last().unwrap() + k);
            }
            let mut t = vec![];
            for x in &c.idx.0 {
                for j in 0..c.sizes.0[*x] {
                    t.push(off[*x] + j);
                }
            }
            Val::F(Some((t, *off.last().unwrap())))
        }
        "is_injective" => Val::Bool((0..p.0.len()).all(|i| !p.0[..i].contains(&p.0[i]))),
        "new-accepts-exactly-functions" => Val::Bool(p.0.iter().all(|v| *v < c.x)),
        "new-accepts-exactly-functions-b" => Val::Bool(r.0.iter().all(|v| *v < a)),
        "semifinite-compose-finite" => Val::F(if p.1 == r.0.len() { Some((p.0.iter().map(|i| r.0[*i]).collect(), r.1)) } else { None }),
        "semifinite-compose-labels" => Val::Lab(if p.1 == c.labels.len() { Some(p.0.iter().map(|i| c.labels[*i]).collect()) } else { None }),
        "semifinite-labels-not-composable-on-the-left" => Val::Bool(true),
        "semifinite-finite-then-label-set-identity-not-composable" => Val::Bool(true),
        "semifinite-identity" => Val::F(Some(((0..a).collect(), a))),
        // source of p, target of p, source of the label array (its length), target of the label array is not finite
        "semifinite-types" => Val::F(Some((vec![p.0.len(), p.1, c.labels.len(), 0], 0))),
        other => panic!("harness: unknown clause {}", other),
    }
}

fn gen_fun(r: &mut Rng, max_len: usize, max_cod: usize) -> Fun {
    let cod = r.range(0, max_cod);
    let len = if cod == 0 { 0 } else { r.range(0, max_len) };
    ((0..len).map(|_| r.below(cod)).collect(), cod)
}

fn gen_surjection(r: &mut Rng, max_cod: usize) -> Fun {
    let k = r.range(0, max_cod);
    let extra = if k == 0 { 0 } else { r.range(0, 6) };
    let mut t: Vec<usize> = (0..k).collect();
    for _ in 0..extra {
        t.push(r.below(k));
    }
    r.shuffle(&mut t);
    (t, k)
}

impl Check for C06 {
    type Case = Case;
    const ID: &'static str = "C06";
    fn runs(tier: Tier) -> u64 {
        crate::runner::scaled(2_500_000, tier)
    }
    fn generate(r: &mut Rng, tier: Tier) -> Case {
        let (ml, mc) = if r.chance(1, if tier == Tier::Thorough { 150 } else { 500 }) { *r.pick(&[(150, 70), (300, 140), (600, 300), (300, 600), (150, 70), (300, 140), (600, 300), (300, 600), (1100, 1100), (4200, 4200)]) } else if r.chance(1, if tier == Tier::Thorough { 25 } else { 120 }) { (80, 40) } else if tier == Tier::Thorough && r.chance(1, 3) { (16, 10) } else { (12, 8) };
        // parallel pair, sometimes broken
        let n = r.range(0, mc);
        let len = if n == 0 { 0 } else { r.range(0, ml) };
        let f: Fun = ((0..len).map(|_| r.below(n)).collect(), n);
        let mut g: Fun = ((0..len).map(|_| r.below(n)).collect(), n);
        if r.chance(1, 5) {
            // chains: g(i) = f(i+1) links everything f touches
            g.0 = (0..len).map(|i| f.0[(i + 1) % len.max(1)]).collect();
        }
        match r.below(12) {
            0 => g.1 += 1,
            1 if !g.0.is_empty() => {
                g.0.pop();
            }
            _ => {}
        }
        // a surjection and things to push through it / through the coequalizer of (f, g)
        let q = if r.chance(1, 2) { gen_surjection(r, mc) } else {
            // the reference quotient of (f, g) itself, numbered by smallest member: domain = n
            if f.0.len() == g.0.len() && f.1 == g.1 {
                let rep = classes_of(&f, &g);
                let mut id = vec![usize::MAX; n];
                let mut k = 0;
                let t: Vec<usize> = (0..n).map(|v| { if id[rep[v]] == usize::MAX { id[rep[v]] = k; k += 1; } id[rep[v]] }).collect();
                (t, k)
            } else {
                gen_surjection(r, mc)
            }
        };
        let dom = q.0.len();
        // labels constant on q's fibres, then maybe damaged
        let class_label: Vec<L> = (0..q.1).map(|_| r.below(3) as L).collect();
        let mut labels: Vec<L> = q.0.iter().map(|c| class_label[*c]).collect();
        let m = r.range(1, 4);
        let class_val: Vec<usize> = (0..q.1).map(|_| r.below(m)).collect();
        let mut h: Fun = (q.0.iter().map(|c| class_val[*c]).collect(), m);
        match r.below(8) {
            0 if dom > 0 => {
                let i = r.below(dom);
                labels[i] += 1; // not constant on a fibre (if the fibre has another member) or a new label
            }
            1 if dom > 0 => {
                let i = r.below(dom);
                h.0[i] = (h.0[i] + 1) % m;
            }
            2 => labels.push(0), // wrong length
            3 if !labels.is_empty() => {
                labels.pop();
            }
            4 => h.0.push(0),
            _ => {}
        }
        let p = gen_fun(r, ml, mc);
        let rr: Fun = if r.chance(2, 3) {
            // composable with p: domain = p's codomain
            let cod = if p.1 > 0 { r.range(1, mc) } else { r.range(0, mc) };
            ((0..p.1).map(|_| r.below(cod)).collect(), cod)
        } else {
            gen_fun(r, ml, mc)
        };
        let sizes: Fun = {
            let k = r.range(0, 6);
            let t: Vec<usize> = (0..k).map(|_| r.below(4)).collect();
            let cod = t.iter().max().map_or(1, |m| m + 1) + r.below(2);
            (t, cod)
        };
        let idx: Fun = {
            let k = sizes.0.len();
            // index map into the segments; its codomain is wrong in 1/8 of the runs
            let cod = if r.chance(1, 8) { k + 1 } else { k };
            (if cod == 0 { vec![] } else { (0..r.range(0, 6)).map(|_| r.below(cod)).collect() }, cod)
        };
        Case { f, g, q, labels, h, p, r: rr, sizes, idx, a: r.range(0, 5), b: r.range(0, 5), x: r.range(0, 4), schedules: r.range(1, 4) }
    }
    fn execute(c: &Case, ex: &mut Exec) -> Result<(), Violation> {
        let mut fp = Fp::new();
        for f in [&c.f, &c.g, &c.q, &c.h, &c.p, &c.r, &c.sizes, &c.idx] {
            fp.add_slice(&f.0);
            fp.add(f.1 as u64);
        }
        for l in &c.labels {
            fp.add(*l as u64);
        }
        fp.add((c.a * 1000 + c.b * 10 + c.x) as u64);
        ex.workload_fp = fp.0;
        ex.nontrivial = !c.f.0.is_empty() || !c.q.0.is_empty();
        ex.probe_if(c.f.0.len() >= 64 || c.f.1 >= 64, "size_64_or_more");
        ex.probe_if(c.f.0.len() >= 256 || c.f.1 >= 256, "size_256_or_more");
        // the workload must respect the harness's own preconditions (tables within codomains, q surjective)
        let ok_fun = |f: &Fun| f.0.iter().all(|v| *v < f.1);
        let surj = {
            let mut hit = vec![false; c.q.1];
            for v in &c.q.0 {
                if *v < c.q.1 {
                    hit[*v] = true;
                }
            }
            hit.iter().all(|h| *h)
        };
        if ![&c.f, &c.g, &c.q, &c.h, &c.p, &c.r, &c.sizes, &c.idx].iter().all(|f| ok_fun(f)) || !surj || c.h.0.len() > 0 && c.h.1 == 0 {
            return Ok(());
        }
        ex.probe_if(c.f.1 == 0, "zero_to_zero");
        ex.probe_if(c.f.0.is_empty() && c.f.1 > 0, "zero_to_n");

        ex.seg_control();
        let o = ex.lib("C06:finite-functions", || B::<SimKind>::c06_observe(c))?;
        judge(ex, c, "sim/control", &o)?;
        ex.seg_vec();
        let o = ex.lib("C06:finite-functions", || B::<VecKind>::c06_observe(c))?;
        judge(ex, c, "vec", &o)?;
        for _ in 0..c.schedules {
            let pol = ex.seg_perturbed();
            let o = ex.lib("C06:finite-functions", || B::<SimKind>::c06_observe(c))?;
            let name = ex.cfg_name(&pol);
            judge(ex, c, &name, &o)?;
        }
        Ok(())
    }
    fn shrink(c: &Case) -> Vec<Case> {
        let mut out = vec![];
        if c.schedules > 1 {
            out.push(Case { schedules: 1, ..c.clone() });
        }
        // shrink the parallel pair together
        if c.f.0.len() == c.g.0.len() {
            for i in 0..c.f.0.len() {
                let mut d = c.clone();
                d.f.0.remove(i);
                d.g.0.remove(i);
                out.push(d);
            }
        }
        // shrink q's domain together with what is pushed through it
        if c.q.0.len() == c.labels.len() && c.q.0.len() == c.h.0.len() {
            for i in 0..c.q.0.len() {
                let mut d = c.clone();
                let cl = d.q.0.remove(i);
                d.labels.remove(i);
                d.h.0.remove(i);
                if d.q.0.contains(&cl) {
                    out.push(d);
                }
            }
        }
        for which in 0..4 {
            let cur = match which {
                0 => &c.p,
                1 => &c.r,
                2 => &c.sizes,
                _ => &c.idx,
            };
            if !cur.0.is_empty() {
                let mut d = c.clone();
                let t = match which {
                    0 => &mut d.p,
                    1 => &mut d.r,
                    2 => &mut d.sizes,
                    _ => &mut d.idx,
                };
                t.0.pop();
                out.push(d);
            }
        }
        for (i, v) in [c.a, c.b, c.x].iter().enumerate() {
            if *v > 0 {
                let mut d = c.clone();
                match i {
                    0 => d.a -= 1,
                    1 => d.b -= 1,
                    _ => d.x -= 1,
                }
                out.push(d);
            }
        }
        out
    }
    fn stress(tier: Tier) -> Vec<Case> {
        // very long identification chains / stars: recursion depth and size thresholds
        let n = if tier == Tier::Thorough { 1_000_000 } else { 300_000 };
        let base = |f: Vec<usize>, g: Vec<usize>| Case {
            f: (f, n),
            g: (g, n),
            q: ((0..n).collect(), n),
            labels: vec![7; n],
            h: (vec![0; n], 1),
            p: (vec![], 0),
            r: (vec![], 0),
            sizes: (vec![], 1),
            idx: (vec![], 0),
            a: 0,
            b: 0,
            x: 0,
            schedules: 1,
        };
        let mut r = Rng::new(0x57E55);
        vec![
            base((1..n).collect(), (0..n - 1).collect()),             // ascending chain
            base((0..n - 1).collect(), (1..n).collect()),             // the same chain, pairs the other way round
            base((1..n).rev().collect(), (0..n - 1).rev().collect()), // descending order
            base((1..n).collect(), vec![0; n - 1]),                   // star
            base((0..n).map(|_| r.below(n)).collect(), (0..n).map(|_| r.below(n)).collect()), // random graph
        ]
    }
    fn rule() -> &'static str {
        "Each run draws: a pair (f,g) into a codomain of 0-8(10) elements with tables of length 0-12(16) (parallel in 10/12 of the runs, else differing in codomain or length; 1/5 chained so that long chains collapse), a surjection q (random, or the reference quotient of (f,g)), a label array and a finite function on q's domain that are constant on q's fibres and then, in half of the runs, damaged (one entry changed, wrong length), and general functions / sizes / index maps / small integers for the control clauses. On sim/control, vec and 1-4 perturbed schedules: coequalizer must be defined iff parallel and be a surjection whose fibres are exactly the classes generated by f(i) ~ g(i) (partition equality with a reference union-find, so 'merges too much' is caught); the universal map through q (given, or the coequalizer just computed) must be Some(u) with q;u = f iff f has q's domain as domain and is constant on fibres, None otherwise; control clauses (compose, compose with label arrays, identity, initial, terminal, constant, inj0/1, inject0/1, coproduct, tensor, tensor with the identity on the monoidal unit, the initial object, source/target accessors, equality, the wrapper's Identity not composable after a finite function, twist, transpose, cumulative_sum, injections, is_injective, operator sugar, FiniteFunction::new accepting exactly the tables of functions, the SemifiniteArrow wrapper) must equal their meaning on functions-as-Vec. Non-trivial iff f or q has a non-empty table; distinct = distinct (workload fingerprint, device decision fingerprint). Five stress cases (chains in both directions and orders, a star and a random graph on 3*10^5 / 10^6 elements) run in child processes on a 2 MiB stack."
    }
    fn assumptions() -> Vec<&'static str> {
        vec![
            "the universal-map clause only uses surjective q (as the property states)",
            "the control clauses consume no open device choice: they are decided by generated inputs on two devices, reported as control",
            "FiniteFunction::new with out-of-range tables is C05's subject",
        ]
    }
    fn required_probes() -> Vec<&'static str> {
        vec!["coequalizers_checked", "coequalizer_of_non_parallel_refused", "universal_map_found", "universal_map_absent_reported", "zero_to_zero", "zero_to_n"]
    }
    fn components() -> serde_json::Value {
        components_s1()
    }
}
