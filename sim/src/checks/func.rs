//! Harness-defined functors (the second party of C12 / C14), generic in the device.
//!
//! A functor is given by a *spec* living on the plain model: object map `label -> list of labels`
//! and, per operation label, the kind of image diagram.  The device-side `Functor` impl decodes
//! the operation batch handed over by the library, builds the tensor of reference-built images on
//! the plain model and converts it to the device.

use crate::dev::{Dev, B, OH};
use crate::plain::{edge, Plain, L};
use open_hypergraphs::array::{Array, NaturalArray};
use open_hypergraphs::indexed_coproduct::IndexedCoproduct;
use open_hypergraphs::operations::Operations;
use open_hypergraphs::semifinite::SemifiniteFunction;
use open_hypergraphs::strict::functor::{define_map_arrow, Functor};
use serde::{Deserialize, Serialize};

#[derive(Serialize, Deserialize, Clone, Debug, PartialEq)]
pub struct FSpec {
    /// object map, indexed by node label modulo its length
    pub ob: Vec<Vec<L>>,
    /// image kind per operation label (modulo length): 0 single operation, 1 composite of two
    /// operations, 2 spider-only, 3 empty when the type allows it (else spider-only)
    pub kind: Vec<u8>,
}

impl FSpec {
    pub fn ob_of(&self, l: L) -> Vec<L> {
        if self.ob.is_empty() {
            vec![l]
        } else {
            self.ob[l as usize % self.ob.len()].clone()
        }
    }
    pub fn expand(&self, ty: &[L]) -> Vec<L> {
        ty.iter().flat_map(|l| self.ob_of(*l)).collect()
    }
    /// image of one operation `l : a -> b`, a diagram of type F(a) -> F(b)
    pub fn image(&self, l: L, a: &[L], b: &[L]) -> Plain {
        let (fa, fb) = (self.expand(a), self.expand(b));
        let kind = if self.kind.is_empty() { 0 } else { self.kind[l as usize % self.kind.len()] };
        image_of_type(kind, l, &fa, &fb)
    }
}

/// a diagram of type `fa -> fb` of the given kind
pub fn image_of_type(kind: u8, l: L, fa: &[L], fb: &[L]) -> Plain {
    match kind {
        0 => Plain::singleton(10 + l, fa, fb),
        1 => {
            let mid: Vec<L> = fb.iter().rev().copied().collect();
            Plain::singleton(10 + l, fa, &mid).glue(&Plain::singleton(20 + l, &mid, fb)).expect("types match by construction")
        }
        3 if fa.is_empty() && fb.is_empty() => Plain::empty(),
        _ => {
            // spider-only: one node per label, every wire of that label attached to it
            let mut labels: Vec<L> = fa.iter().chain(fb.iter()).copied().collect();
            labels.sort_unstable();
            labels.dedup();
            let pos = |l: &L| labels.iter().position(|x| x == l).unwrap();
            Plain { w: labels.clone(), e: vec![], s: fa.iter().map(pos).collect(), t: fb.iter().map(pos).collect() }
        }
    }
}

/// the device-side functor defined by a spec
pub struct SpecFunctor<'a> {
    pub spec: &'a FSpec,
    /// build the image batch with the library's own segmented-array operations (flatmap_sources,
    /// Operations::new, tensor_operations) whenever every operation maps to a single operation —
    /// the way a user-written functor would; otherwise (and when false) on the plain model
    pub native: bool,
}

/// decode an operation batch into (label, source labels, target labels)
pub fn decode_ops<K: Dev>(ops: &Operations<K, L, L>) -> Vec<(L, Vec<L>, Vec<L>)>
where
    K::Type<usize>: NaturalArray<K>,
    K::Type<L>: Array<K, L>,
{
    let xs = K::un(&ops.x.0);
    let asz = K::unix(&ops.a.sources.table);
    let av = K::un(&ops.a.values.0);
    let bsz = K::unix(&ops.b.sources.table);
    let bv = K::un(&ops.b.values.0);
    let (mut ai, mut bi) = (0, 0);
    let mut out = vec![];
    for (i, x) in xs.iter().enumerate() {
        out.push((*x, av[ai..ai + asz[i]].to_vec(), bv[bi..bi + bsz[i]].to_vec()));
        ai += asz[i];
        bi += bsz[i];
    }
    out
}

impl<'a, K> Functor<K, L, L, L, L> for SpecFunctor<'a>
where
    K: Dev,
    K::Type<usize>: NaturalArray<K> + PartialEq,
    K::Type<L>: Array<K, L> + PartialEq + std::fmt::Debug,
    K::Type<u64>: Array<K, u64> + PartialEq + std::fmt::Debug,
    K::Index: std::fmt::Debug,
{
    fn map_object(&self, a: &SemifiniteFunction<K, L>) -> IndexedCoproduct<K, SemifiniteFunction<K, L>> {
        let ls = K::un(&a.0);
        B::<K>::seg_labels(&ls.iter().map(|l| self.spec.ob_of(*l)).collect::<Vec<_>>())
    }
    fn map_operations(&self, ops: Operations<K, L, L>) -> OH<K> {
        let decoded = decode_ops::<K>(&ops);
        let all_single = !self.spec.kind.is_empty() && decoded.iter().all(|(x, _, _)| self.spec.kind[*x as usize % self.spec.kind.len()] == 0);
        if self.native && all_single {
            // relabel every operation and expand its source and target types through the object map
            let fa = <Self as Functor<K, L, L, L, L>>::map_object(self, &ops.a.values);
            let fb = <Self as Functor<K, L, L, L, L>>::map_object(self, &ops.b.values);
            let a2 = ops.a.flatmap_sources(&fa);
            let b2 = ops.b.flatmap_sources(&fb);
            let x2 = SemifiniteFunction(K::arr(decoded.iter().map(|(x, _, _)| 10 + *x).collect::<Vec<L>>()));
            return OH::<K>::tensor_operations(Operations::new(x2, a2, b2).expect("one source and one target type per operation"));
        }
        let imgs: Vec<Plain> = decoded.iter().map(|(x, a, b)| self.spec.image(*x, a, b)).collect();
        B::<K>::to_dev(&Plain::tensor_all(&imgs))
    }
    fn map_arrow(&self, f: &OH<K>) -> OH<K> {
        define_map_arrow(self, f)
    }
}

// ------------------------------------------------------------------------------------------
// optics on the plain model

#[derive(Serialize, Deserialize, Clone, Debug, PartialEq)]
pub struct OSpec {
    pub fwd_ob: Vec<Vec<L>>,
    pub rev_ob: Vec<Vec<L>>,
    /// residual object list per operation label (modulo length)
    pub residual: Vec<Vec<L>>,
    /// image kinds per operation label for the forward and reverse maps
    pub fwd_kind: Vec<u8>,
    pub rev_kind: Vec<u8>,
}

impl OSpec {
    pub fn f_of(&self, l: L) -> Vec<L> {
        self.fwd_ob[l as usize % self.fwd_ob.len()].clone()
    }
    pub fn r_of(&self, l: L) -> Vec<L> {
        self.rev_ob[l as usize % self.rev_ob.len()].clone()
    }
    pub fn f(&self, ty: &[L]) -> Vec<L> {
        ty.iter().flat_map(|l| self.f_of(*l)).collect()
    }
    pub fn r(&self, ty: &[L]) -> Vec<L> {
        ty.iter().flat_map(|l| self.r_of(*l)).collect()
    }
    pub fn m(&self, l: L) -> Vec<L> {
        if self.residual.is_empty() {
            vec![]
        } else {
            self.residual[l as usize % self.residual.len()].clone()
        }
    }
    /// forward image: F(a) -> F(b) ● M
    pub fn fwd_image(&self, l: L, a: &[L], b: &[L]) -> Plain {
        let mut tgt = self.f(b);
        tgt.extend(self.m(l));
        let kind = self.fwd_kind[l as usize % self.fwd_kind.len()];
        image_of_type(if kind == 2 || kind == 3 { 0 } else { kind }, l, &self.f(a), &tgt)
    }
    /// reverse image: M ● R(b) -> R(a)
    pub fn rev_image(&self, l: L, a: &[L], b: &[L]) -> Plain {
        let mut src = self.m(l);
        src.extend(self.r(b));
        let kind = self.rev_kind[l as usize % self.rev_kind.len()];
        image_of_type(if kind == 2 || kind == 3 { 0 } else { kind }, 40 + l, &src, &self.r(a))
    }
    /// interleave(F ty, R ty) = F(t0) R(t0) F(t1) R(t1) ...
    pub fn interleaved(&self, ty: &[L]) -> Vec<L> {
        ty.iter().flat_map(|l| self.f_of(*l).into_iter().chain(self.r_of(*l))).collect()
    }
}

/// positions of the F-blocks and of the R-blocks inside interleave(F ty, R ty)
pub fn block_positions(fw: &[usize], rw: &[usize]) -> (Vec<usize>, Vec<usize>) {
    let (mut fp, mut rp) = (vec![], vec![]);
    let mut k = 0;
    for i in 0..fw.len() {
        for _ in 0..fw[i] {
            fp.push(k);
            k += 1;
        }
        for _ in 0..rw[i] {
            rp.push(k);
            k += 1;
        }
    }
    (fp, rp)
}

/// Reference optic image of one operation x : a -> b given its forward image (F a -> F b ● M) and
/// reverse image (M ● R b -> R a): both diagrams side by side, the residual wires of the forward
/// image glued to the residual inputs of the reverse image, interfaces
///   interleave(F a, R a)  ->  interleave(F b, R b)
/// where the R a positions sit on the reverse image's *outputs* and the R b positions on its
/// *inputs* (bent wires).
pub fn lens(fwd: &Plain, rev: &Plain, fa: &[Vec<L>], ra: &[Vec<L>], fb: &[Vec<L>], rb: &[Vec<L>], m_len: usize) -> Plain {
    let nf = fwd.w.len();
    let both = fwd.tensor(rev);
    let n_fb: usize = fb.iter().map(|v| v.len()).sum();
    // residual: forward outputs n_fb.. glued to reverse inputs 0..m_len
    let pairs: Vec<(usize, usize)> = (0..m_len).map(|k| (fwd.t[n_fb + k], nf + rev.s[k])).collect();
    // interfaces before quotienting
    let mut s = vec![];
    let (mut fi, mut ri) = (0, 0);
    for i in 0..fa.len() {
        for _ in 0..fa[i].len() {
            s.push(fwd.s[fi]);
            fi += 1;
        }
        for _ in 0..ra[i].len() {
            s.push(nf + rev.t[ri]);
            ri += 1;
        }
    }
    let mut t = vec![];
    let (mut fi, mut ri) = (0, 0);
    for i in 0..fb.len() {
        for _ in 0..fb[i].len() {
            t.push(fwd.t[fi]);
            fi += 1;
        }
        for _ in 0..rb[i].len() {
            t.push(nf + rev.s[m_len + ri]);
            ri += 1;
        }
    }
    let mut d = Plain { w: both.w, e: both.e, s, t };
    d = d.quotient_by(&pairs).expect("residual types agree").0;
    d
}

/// adapted form of an optic image c : interleave(FA,RA) -> interleave(FB,RB), as FA ● RB -> FB ● RA
pub fn adapt_ref(c: &Plain, fa_w: &[usize], ra_w: &[usize], fb_w: &[usize], rb_w: &[usize]) -> Plain {
    let (fa_p, ra_p) = block_positions(fa_w, ra_w);
    let (fb_p, rb_p) = block_positions(fb_w, rb_w);
    let s: Vec<usize> = fa_p.iter().map(|p| c.s[*p]).chain(rb_p.iter().map(|p| c.t[*p])).collect();
    let t: Vec<usize> = fb_p.iter().map(|p| c.t[*p]).chain(ra_p.iter().map(|p| c.s[*p])).collect();
    Plain { w: c.w.clone(), e: c.e.clone(), s, t }
}

// ------------------------------------------------------------------------------------------
// the polynomial-circuit theory and its reverse-derivative lenses

pub const ADD: L = 1;
pub const MUL: L = 2;
pub const NEG: L = 3;
pub const COPY: L = 4;
pub const DISCARD: L = 5;
pub const CONST: L = 100;

pub fn arity(l: L) -> (usize, usize) {
    match l {
        ADD | MUL => (2, 1),
        NEG => (1, 1),
        COPY => (1, 2),
        DISCARD => (1, 0),
        _ => (0, 1),
    }
}
pub fn poly_interp(l: L, x: &[u64]) -> Vec<u64> {
    match l {
        ADD => vec![x[0].wrapping_add(x[1])],
        MUL => vec![x[0].wrapping_mul(x[1])],
        NEG => vec![x[0].wrapping_neg()],
        COPY => vec![x[0], x[0]],
        DISCARD => vec![],
        c => vec![(c - CONST) as u64],
    }
}
fn op1(l: L) -> Plain {
    let (m, n) = arity(l);
    Plain::singleton(l, &vec![0; m], &vec![0; n])
}
/// forward part of the reverse-derivative lens of `l`:  A -> B ● M
pub fn rd_fwd(l: L) -> Plain {
    if l == MUL {
        // (x, y) -> (x*y, x, y)
        Plain {
            w: vec![0; 7],
            e: vec![edge(COPY, vec![0], vec![2, 3]), edge(COPY, vec![1], vec![4, 5]), edge(MUL, vec![2, 4], vec![6])],
            s: vec![0, 1],
            t: vec![6, 3, 5],
        }
    } else {
        op1(l)
    }
}
/// reverse part:  M ● R(B) -> R(A)
pub fn rd_rev(l: L) -> Plain {
    match l {
        ADD => op1(COPY),
        NEG => op1(NEG),
        COPY => op1(ADD),
        DISCARD => op1(CONST),
        MUL => {
            // (x, y, dz) -> (dz*y, dz*x)
            Plain {
                w: vec![0; 7],
                e: vec![edge(COPY, vec![2], vec![3, 4]), edge(MUL, vec![3, 1], vec![5]), edge(MUL, vec![4, 0], vec![6])],
                s: vec![0, 1, 2],
                t: vec![5, 6],
            }
        }
        _ => op1(DISCARD), // constants
    }
}
pub fn rd_residual(l: L) -> Vec<L> {
    if l == MUL {
        vec![0, 0]
    } else {
        vec![]
    }
}

/// a functor given by two closures on the plain model (used for the derivative optic's fwd / rev)
pub struct ClosureFunctor {
    pub ob: fn(L) -> Vec<L>,
    pub op: fn(L, &[L], &[L]) -> Plain,
}
impl<K> Functor<K, L, L, L, L> for ClosureFunctor
where
    K: Dev,
    K::Type<usize>: NaturalArray<K> + PartialEq,
    K::Type<L>: Array<K, L> + PartialEq + std::fmt::Debug,
    K::Type<u64>: Array<K, u64> + PartialEq + std::fmt::Debug,
    K::Index: std::fmt::Debug,
{
    fn map_object(&self, a: &SemifiniteFunction<K, L>) -> IndexedCoproduct<K, SemifiniteFunction<K, L>> {
        let ls = K::un(&a.0);
        B::<K>::seg_labels(&ls.iter().map(|l| (self.ob)(*l)).collect::<Vec<_>>())
    }
    fn map_operations(&self, ops: Operations<K, L, L>) -> OH<K> {
        let imgs: Vec<Plain> = decode_ops::<K>(&ops).iter().map(|(x, a, b)| (self.op)(*x, a, b)).collect();
        B::<K>::to_dev(&Plain::tensor_all(&imgs))
    }
    fn map_arrow(&self, f: &OH<K>) -> OH<K> {
        define_map_arrow(self, f)
    }
}

/// functor whose images come from an OSpec (forward or reverse half of a generated optic)
pub struct HalfOptic<'a> {
    pub spec: &'a OSpec,
    pub forward: bool,
}
impl<'a, K> Functor<K, L, L, L, L> for HalfOptic<'a>
where
    K: Dev,
    K::Type<usize>: NaturalArray<K> + PartialEq,
    K::Type<L>: Array<K, L> + PartialEq + std::fmt::Debug,
    K::Type<u64>: Array<K, u64> + PartialEq + std::fmt::Debug,
    K::Index: std::fmt::Debug,
{
    fn map_object(&self, a: &SemifiniteFunction<K, L>) -> IndexedCoproduct<K, SemifiniteFunction<K, L>> {
        let ls = K::un(&a.0);
        B::<K>::seg_labels(&ls.iter().map(|l| if self.forward { self.spec.f_of(*l) } else { self.spec.r_of(*l) }).collect::<Vec<_>>())
    }
    fn map_operations(&self, ops: Operations<K, L, L>) -> OH<K> {
        let imgs: Vec<Plain> = decode_ops::<K>(&ops).iter().map(|(x, a, b)| if self.forward { self.spec.fwd_image(*x, a, b) } else { self.spec.rev_image(*x, a, b) }).collect();
        B::<K>::to_dev(&Plain::tensor_all(&imgs))
    }
    fn map_arrow(&self, f: &OH<K>) -> OH<K> {
        define_map_arrow(self, f)
    }
}
