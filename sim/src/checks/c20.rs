//! C20 — results do not depend on unspecified choices of the array backend.
//!
//! The property *is* the simulation: every listed operation runs on the shipped VecKind, on the
//! simulated device taking the Vec decisions (control), and under >= 8 perturbed schedules
//! (each open choice perturbed alone, the fixed adversarial policies on all kinds, all random).
//! Diagram results must be isomorphic to Vec's; predicates, unvisited flags, Option/Result shapes
//! and evaluation outputs identical; layerings valid on every schedule.

use super::c14::TypingCase;
use super::c15;
use super::c16;
use super::c17;
use super::c18;
use super::func::{FSpec, SpecFunctor};
use super::{components_s1, expect_iso};
use crate::dev::{B, OH};
use crate::dev_impl;
use crate::gen;
use crate::graphref::{self, launch_budget, op_visited};
use crate::plain::{shrink_plain, Plain, L};
use crate::rng::{Fp, Rng};
use crate::runner::{viol, Check, Exec, Tier, Violation};
use crate::sched::{Policy, ALL_VECLIKE, KIND_NAMES, N_KINDS};
use crate::simkind::SimKind;
use open_hypergraphs::array::vec::VecKind;
use open_hypergraphs::category::{Arrow, Monoidal};
use open_hypergraphs::strict::functor::Functor;
use serde::{Deserialize, Serialize};

#[derive(Serialize, Deserialize, Clone, Debug)]
pub struct Case {
    /// composable pair for composition / tensor / functor
    pub f: Plain,
    pub g: Plain,
    pub spec: FSpec,
    /// a small optic workload
    pub optic: TypingCase,
    /// arbitrary diagram for layering and the structural predicates
    pub d: Plain,
    /// evaluable circuit (C16's precondition) with one input vector
    pub circuit: Plain,
    pub input: Vec<u64>,
    /// morphism workload
    pub arrow: c18::Case,
    /// extra random schedules on top of the eight fixed ones
    pub extra_schedules: usize,
}

pub struct C20;

/// everything one configuration observed
#[derive(Debug)]
pub struct Obs {
    pub compose: Option<Plain>,
    pub tensor: Plain,
    pub functor: Plain,
    pub optic: Vec<(&'static str, Plain)>,
    pub layer: c15::Obs,
    pub eval: Option<Vec<u64>>,
    pub preds: c17::Obs,
    pub arrow: c18::Obs,
}

dev_impl! {
    pub fn c20_observe(c: &Case) -> Result<Obs, String> {
        let wf = |name: &str, d: &OH<K>| Self::from_dev(d).map_err(|e| format!("{}: ill-formed result: {}", name, e));
        let (df, dg) = (Self::to_dev(&c.f), Self::to_dev(&c.g));
        let compose = match df.compose(&dg) {
            Some(r) => Some(wf("compose", &r)?),
            None => None,
        };
        let tensor = wf("tensor", &df.tensor(&dg))?;
        let fu = SpecFunctor { spec: &c.spec, native: c.extra_schedules % 2 == 1 };
        let functor = wf("functor", &<SpecFunctor as Functor<K, L, L, L, L>>::map_arrow(&fu, &df))?;
        let optic = Self::c14_typing(&c.optic)?.into_iter().filter(|p| p.0 == "optic-image" || p.0 == "adapted-form").map(|p| (p.0, p.1)).collect();
        let layer = Self::c15_layer(&c.d);
        let eval = Self::c16_eval(&c.circuit, &c.input).out;
        let (ao, ah) = Self::c17_acyclic(&c.d);
        let (i, o) = Self::c17_degrees(&c.d);
        let preds = c17::Obs { acyclic_open: ao, acyclic_h: ah, monogamous: Self::c17_monogamous(&c.d), in_deg: i, out_deg: o };
        let arrow = Self::c18_observe(&c.arrow);
        Ok(Obs { compose, tensor, functor, optic, layer, eval, preds, arrow })
    }
}

/// compare a simulated configuration with the Vec backend's observation
fn compare(ex: &mut Exec, c: &Case, cfg: &str, sim: &Obs, vec: &Obs) -> Result<(), Violation> {
    match (&sim.compose, &vec.compose) {
        (None, None) => {}
        (Some(a), Some(b)) => expect_iso(ex, a, b, "C20:compose:not-isomorphic-to-vec", cfg)?,
        (a, b) => return viol("C20:compose:definedness-differs-from-vec", format!("[{}] compose is_some = {} on the simulated device, {} on Vec", cfg, a.is_some(), b.is_some())),
    }
    expect_iso(ex, &sim.tensor, &vec.tensor, "C20:tensor:not-isomorphic-to-vec", cfg)?;
    expect_iso(ex, &sim.functor, &vec.functor, "C20:functor:not-isomorphic-to-vec", cfg)?;
    if sim.optic.len() != vec.optic.len() {
        return viol("C20:optic:shape-differs-from-vec", format!("[{}] {} vs {} optic results", cfg, sim.optic.len(), vec.optic.len()));
    }
    for (a, b) in sim.optic.iter().zip(vec.optic.iter()) {
        expect_iso(ex, &a.1, &b.1, &format!("C20:optic:{}:not-isomorphic-to-vec", a.0), cfg)?;
    }
    // layering: identical unvisited flags, valid layering on this schedule
    if sim.layer.unvisited != vec.layer.unvisited || sim.layer.groups_unvisited != vec.layer.groups_unvisited {
        return viol("C20:layer:unvisited-flags-differ-from-vec", format!("[{}] {:?} / {:?} vs Vec {:?} / {:?} on {:?}", cfg, sim.layer.unvisited, sim.layer.groups_unvisited, vec.layer.unvisited, vec.layer.groups_unvisited, c.d));
    }
    c15::judge(ex, &c.d, cfg, &sim.layer).map_err(|v| Violation { class: format!("C20:layer-validity:{}", v.class), detail: v.detail })?;
    if sim.eval != vec.eval {
        return viol("C20:eval:differs-from-vec", format!("[{}] eval gives {:?}, on Vec {:?}, for {:?} on {:?}", cfg, sim.eval, vec.eval, c.input, c.circuit));
    }
    if sim.preds != vec.preds {
        return viol("C20:predicates:differ-from-vec", format!("[{}] {:?} vs Vec {:?} on {:?}", cfg, sim.preds, vec.preds, c.d));
    }
    if sim.arrow != vec.arrow {
        return viol("C20:morphism-tests:differ-from-vec", format!("[{}] {:?} vs Vec {:?} on {:?}", cfg, sim.arrow, vec.arrow, c.arrow));
    }
    Ok(())
}

pub fn fixed_schedules() -> Vec<(String, [Policy; N_KINDS])> {
    let mut v = vec![];
    for k in 0..N_KINDS {
        let mut p = ALL_VECLIKE;
        p[k] = Policy::Random;
        v.push((format!("only {} perturbed (random)", KIND_NAMES[k]), p));
    }
    v.push(("all kinds reverse".into(), [Policy::Reverse; N_KINDS]));
    v.push(("all kinds rotate".into(), [Policy::Rotate; N_KINDS]));
    v.push(("all kinds by-largest/reverse".into(), [Policy::ByLargest; N_KINDS]));
    v.push(("all kinds random".into(), [Policy::Random; N_KINDS]));
    v
}

impl Check for C20 {
    type Case = Case;
    const ID: &'static str = "C20";
    fn runs(tier: Tier) -> u64 {
        crate::runner::scaled(60_000, tier)
    }
    fn generate(r: &mut Rng, tier: Tier) -> Case {
        let mut cfg = gen::draw_cfg(r, tier);
        cfg.max_extra_nodes = cfg.max_extra_nodes.min(if cfg.huge { 140 } else if cfg.large { 12 } else { 4 });
        cfg.max_edges = cfg.max_edges.min(if cfg.huge { 70 } else if cfg.large { 6 } else { 3 });
        cfg.max_arity = cfg.max_arity.min(3);
        let (f, g) = gen::gen_pair(r, &cfg);
        let (f, g) = if r.chance(1, 10) { gen::make_mismatch(r, &f, &g).unwrap_or((f, g)) } else { (f, g) };
        let spec = super::c12::gen_spec(r, cfg.node_labels);
        let optic = match <super::c14::C14 as Check>::generate(r, Tier::Quick) {
            super::c14::Case::Typing(t) => t,
            _ => {
                // draw until a typing workload comes up (bounded: fall back to an empty one)
                let mut t = None;
                for _ in 0..8 {
                    if let super::c14::Case::Typing(x) = <super::c14::C14 as Check>::generate(r, Tier::Quick) {
                        t = Some(x);
                        break;
                    }
                }
                t.unwrap_or_else(|| TypingCase { f: Plain::empty(), g: Plain::empty(), spec: super::func::OSpec { fwd_ob: vec![vec![0]], rev_ob: vec![vec![0]], residual: vec![vec![]], fwd_kind: vec![0], rev_kind: vec![0] }, schedules: 1 })
            }
        };
        let big = tier == Tier::Thorough && r.chance(1, 3);
        let d = if r.chance(1, 2) { graphref::gen_dense(r, big) } else { graphref::gen_layered(r, big) };
        let mut circuit = c16::gen_circuit(r, big);
        if r.chance(1, 3) {
            // a wire that is read but never written (neither an input nor an operation output): what it
            // holds is not specified by C16, but it must not depend on the backend
            circuit.w.push(0);
            let v = circuit.w.len() - 1;
            if !circuit.e.is_empty() && r.chance(2, 3) {
                let i = r.below(circuit.e.len());
                circuit.e[i].s.push(v);
            } else {
                circuit.t.push(v);
            }
        }
        let input = (0..circuit.s.len()).map(|_| r.next()).collect();
        let arrow = <c18::C18 as Check>::generate(r, tier);
        Case { f, g, spec, optic, d, circuit, input, arrow, extra_schedules: r.range(0, 2) }
    }
    fn execute(c: &Case, ex: &mut Exec) -> Result<(), Violation> {
        let mut fp = Fp::new();
        for p in [&c.f, &c.g, &c.d, &c.circuit, &c.optic.f, &c.arrow.g, &c.arrow.h] {
            fp.add(p.fingerprint());
        }
        fp.add(crate::rng::hash_str(&format!("{:?}{:?}{:?}{:?}", c.spec, c.optic.spec, c.arrow.w, c.arrow.x)));
        ex.workload_fp = fp.0;
        ex.nontrivial = c.f.n() + c.d.n() > 0;
        ex.probe_if(c.f.n() >= 64 || c.f.m() >= 64 || c.f.s.len() >= 64 || c.f.t.len() >= 64, "size_64_or_more");
        ex.probe_if(c.f.n() >= 256 || c.f.m() >= 256 || c.f.s.len() >= 256 || c.f.t.len() >= 256, "size_256_or_more");
        // every node written at most once (no write races between operations of one batch) and no
        // dependency cycle; nodes that are read but never written are allowed here
        let single_writer = {
            let mut writers = vec![0usize; c.circuit.w.len()];
            for v in c.circuit.s.iter().chain(c.circuit.e.iter().flat_map(|e| e.t.iter())) {
                writers[*v] += 1;
            }
            writers.iter().all(|k| *k <= 1)
        };
        if !single_writer || graphref::has_op_cycle(&c.circuit) || c.input.len() != c.circuit.s.len() {
            return Ok(()); // shrinking left the evaluation precondition
        }
        ex.probe_if(!c16::precondition(&c.circuit), "circuit_reads_a_never_written_wire");
        let budget = 4 * (launch_budget(&c.f) + launch_budget(&c.g) + launch_budget(&c.d) + launch_budget(&c.circuit) + launch_budget(&c.arrow.h) + launch_budget(&c.optic.f)) + 400_000;
        let run_err = |cfg: &str, e: String| -> Violation { Violation { class: "C20:undefined-or-ill-formed".into(), detail: format!("[{}] {}", cfg, e) } };

        ex.seg_vec();
        let vec = ex.lib_budget("C20:operations", budget, || B::<VecKind>::c20_observe(c))?.map_err(|e| run_err("vec", e))?;
        ex.seg_control();
        let ctl = ex.lib_budget("C20:operations", budget, || B::<SimKind>::c20_observe(c))?.map_err(|e| run_err("sim/control", e))?;
        compare(ex, c, "sim/control", &ctl, &vec)?;
        ex.probe_if(op_visited(&c.d).iter().any(|v| !*v), "layering_input_with_cycle");
        let mut scheds = fixed_schedules();
        for k in 0..c.extra_schedules {
            scheds.push((format!("extra random #{}", k), crate::runner::draw_policies(&mut ex.sched_rng)));
        }
        for (name, pol) in scheds {
            ex.seg_policies(pol);
            let cfg = if crate::sched::is_replay() { "sim/replayed-schedule".to_string() } else { format!("sim/{}", name) };
            let o = ex.lib_budget("C20:operations", budget, || B::<SimKind>::c20_observe(c))?.map_err(|e| run_err(&cfg, e))?;
            compare(ex, c, &cfg, &o, &vec)?;
            ex.probe_if(o.compose.is_some() && o.compose != vec.compose, "compose_raw_data_differs_from_vec");
            ex.probe_if(o.functor != vec.functor, "functor_raw_data_differs_from_vec");
            ex.probe_if(o.layer.groups != vec.layer.groups, "layer_group_order_differs_from_vec");
            ex.probe("perturbed_configurations");
        }
        Ok(())
    }
    fn shrink(c: &Case) -> Vec<Case> {
        let mut out = vec![];
        if c.extra_schedules > 0 {
            out.push(Case { extra_schedules: 0, ..c.clone() });
        }
        // whole components to trivial ones first
        if c.f.size() + c.g.size() > 0 {
            out.push(Case { f: Plain::empty(), g: Plain::empty(), ..c.clone() });
        }
        if c.d.size() > 0 {
            out.push(Case { d: Plain::empty(), ..c.clone() });
        }
        if c.circuit.size() > 0 {
            out.push(Case { circuit: Plain::empty(), input: vec![], ..c.clone() });
        }
        if c.optic.f.size() + c.optic.g.size() > 0 {
            let mut d = c.clone();
            d.optic.f = Plain::empty();
            d.optic.g = Plain::empty();
            out.push(d);
        }
        if c.arrow.g.size() + c.arrow.h.size() > 0 {
            let mut d = c.clone();
            d.arrow = c18::Case { g: Plain::empty(), h: Plain::empty(), w: vec![], w_cod: 0, x: vec![], x_cod: 0, corruption: "none".into(), schedules: 1 };
            out.push(d);
        }
        for f in shrink_plain(&c.f) {
            out.push(Case { f, ..c.clone() });
        }
        for g in shrink_plain(&c.g) {
            out.push(Case { g, ..c.clone() });
        }
        for d in shrink_plain(&c.d) {
            out.push(Case { d, ..c.clone() });
        }
        for a in <c18::C18 as Check>::shrink(&c.arrow) {
            out.push(Case { arrow: a, ..c.clone() });
        }
        for t in <super::c14::C14 as Check>::shrink(&super::c14::Case::Typing(c.optic.clone())) {
            if let super::c14::Case::Typing(t) = t {
                out.push(Case { optic: t, ..c.clone() });
            }
        }
        for k in <c16::C16 as Check>::shrink(&c16::Case { f: c.circuit.clone(), renumberings: vec![], inputs: vec![c.input.clone()], schedules: 1 }) {
            if k.inputs.len() == 1 {
                out.push(Case { circuit: k.f, input: k.inputs[0].clone(), ..c.clone() });
            }
        }
        out
    }
    fn rule() -> &'static str {
        "Each run draws one workload per listed operation: a composable (1/10 mismatching) pair for composition and tensor, a functor spec, a small optic workload, an arbitrary dense/layered diagram for layering and the structural predicates, an evaluable circuit with an input vector (in 1/3 of the runs with a wire that is read but never written: its value is unspecified but must not depend on the backend), a morphism workload (valid or with one corruption). Everything runs on VecKind, on the simulated device with all decisions VecLike (control), and under 8 fixed perturbed schedules (each of sort_ties / cc_numbering / sparse_keys / scatter_fill perturbed alone with random decisions; all kinds Reverse; all Rotate; all ByLargest; all Random) plus 0-2 extra swarm-drawn ones. Oracle: diagram results (compose, tensor, functor image, optic image, adapted optic) isomorphic to Vec's; compose definedness, unvisited flags, evaluation output, is_acyclic / is_monogamous / degrees, HypergraphArrow::new outcome (incl. the named variant) / is_monomorphism / is_convex_subgraph identical to Vec's; every layering valid by C15's oracle. Non-trivial iff a diagram has a node; distinct = distinct (workload fingerprint, device decision fingerprint)."
    }
    fn assumptions() -> Vec<&'static str> {
        vec![
            "'all contract-conforming array backends' is explored through the complete outcome sets of the four documented open choices on one independent backend (SimKind); other freedoms (another index type, another scatter race winner) are not explored",
            "SimKind is implemented independently of VecArray, so agreement of control with Vec is also a differential test of the shipped primitives on the paths the strict algorithms use",
            "the named HypergraphArrow error variant is compared with Vec's (a refactoring that changes which failing condition is reported first *under some schedule only* would be flagged; none of the checks are schedule-dependent today)",
        ]
    }
    fn required_probes() -> Vec<&'static str> {
        vec!["perturbed_configurations", "circuit_reads_a_never_written_wire", "compose_raw_data_differs_from_vec", "functor_raw_data_differs_from_vec", "layer_group_order_differs_from_vec", "layering_input_with_cycle"]
    }
    fn components() -> serde_json::Value {
        components_s1()
    }
}
