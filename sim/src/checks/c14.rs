//! C14 — optic transformation is well-typed, functorial and differentiates correctly.

use super::func::{self, adapt_ref, lens, ClosureFunctor, HalfOptic, OSpec};
use super::{components_s1, expect_iso};
use crate::dev::{Dev, B, OH};
use crate::dev_impl;
use crate::gen;
use crate::graphref;
use crate::plain::{edge, shrink_plain, Plain, L};
use crate::rng::{mix, Rng};
use crate::runner::{viol, Check, Exec, Tier, Violation};
use crate::simkind::SimKind;
use open_hypergraphs::array::vec::{VecArray, VecKind};
use open_hypergraphs::category::{Arrow, Monoidal};
use open_hypergraphs::indexed_coproduct::IndexedCoproduct;
use open_hypergraphs::lax;
use open_hypergraphs::operations::Operations;
use open_hypergraphs::semifinite::SemifiniteFunction;
use open_hypergraphs::strict::eval::eval;
use open_hypergraphs::strict::functor::{Functor, Optic};
use serde::{Deserialize, Serialize};

#[derive(Serialize, Deserialize, Clone, Debug)]
pub struct TypingCase {
    pub f: Plain,
    pub g: Plain,
    pub spec: OSpec,
    pub schedules: usize,
}

#[derive(Serialize, Deserialize, Clone, Debug)]
pub struct DerivCase {
    /// a monogamous acyclic circuit over {add, mul, neg, copy, discard, const}
    pub f: Plain,
    /// (x, dy) input vectors
    pub inputs: Vec<(Vec<u64>, Vec<u64>)>,
    pub schedules: usize,
}

#[derive(Serialize, Deserialize, Clone, Debug)]
pub enum Case {
    Typing(TypingCase),
    Deriv(DerivCase),
}

pub struct C14;

pub type Pair = (&'static str, Plain, Plain);

#[derive(Debug)]
pub struct DerivObs {
    pub adapted: Plain,
    pub monogamous: bool,
    pub acyclic: bool,
    pub outs: Vec<Option<Vec<u64>>>,
}

fn widths(ty: &[L], f: &dyn Fn(L) -> Vec<L>) -> Vec<usize> {
    ty.iter().map(|l| f(*l).len()).collect()
}

/// reference optic image of a plain diagram: substitution of lenses
pub fn optic_reference(spec: &OSpec, p: &Plain) -> Plain {
    let ob = |l: L| -> Vec<L> { spec.f_of(l).into_iter().chain(spec.r_of(l)).collect() };
    let op = |l: L, a: &[L], b: &[L]| -> Plain {
        let blocks = |ty: &[L], fwd: bool| -> Vec<Vec<L>> { ty.iter().map(|x| if fwd { spec.f_of(*x) } else { spec.r_of(*x) }).collect() };
        lens(&spec.fwd_image(l, a, b), &spec.rev_image(l, a, b), &blocks(a, true), &blocks(a, false), &blocks(b, true), &blocks(b, false), spec.m(l).len())
    };
    p.substitute(&ob, &op)
}
/// reference adapted form of the optic image of a diagram of type a -> b
pub fn adapted_reference(spec: &OSpec, image: &Plain, a: &[L], b: &[L]) -> Plain {
    let fwd = |l: L| spec.f_of(l);
    let rev = |l: L| spec.r_of(l);
    adapt_ref(image, &widths(a, &fwd), &widths(a, &rev), &widths(b, &fwd), &widths(b, &rev))
}

dev_impl! {
    /// apply a generated optic on device K (optionally followed by adapt)
    pub fn c14_apply(spec: &OSpec, f: &OH<K>, adapted: bool) -> OH<K> {
        let residual_spec = spec.clone();
        let optic: Optic<HalfOptic, HalfOptic, K, L, L, L, L> = Optic::new(
            HalfOptic { spec, forward: true },
            HalfOptic { spec, forward: false },
            Box::new(move |ops: &Operations<K, L, L>| Self::seg_labels(&K::un(&ops.x.0).iter().map(|x| residual_spec.m(*x)).collect::<Vec<_>>())),
        );
        let img = optic.map_arrow(f);
        if adapted {
            optic.adapt(&img, &f.source(), &f.target())
        } else {
            img
        }
    }

    fn c14_plain(name: &str, f: &OH<K>) -> Result<Plain, String> {
        Self::from_dev(f).map_err(|e| format!("{}: ill-formed result: {}", name, e))
    }

    /// generated optics: typing, the lens shape of every operation image, functoriality, adapt
    pub fn c14_typing(c: &TypingCase) -> Result<Vec<Pair>, String> {
        let spec = &c.spec;
        let residual_spec = spec.clone();
        let optic: Optic<HalfOptic, HalfOptic, K, L, L, L, L> = Optic::new(
            HalfOptic { spec, forward: true },
            HalfOptic { spec, forward: false },
            Box::new(move |ops: &Operations<K, L, L>| Self::seg_labels(&K::un(&ops.x.0).iter().map(|x| residual_spec.m(*x)).collect::<Vec<_>>())),
        );
        let map = |d: &OH<K>| optic.map_arrow(d);
        // reference optic image by substitution of lenses
        let ob = |l: L| -> Vec<L> { spec.f_of(l).into_iter().chain(spec.r_of(l)).collect() };
        let op = |l: L, a: &[L], b: &[L]| -> Plain {
            let blocks = |ty: &[L], fwd: bool| -> Vec<Vec<L>> { ty.iter().map(|x| if fwd { spec.f_of(*x) } else { spec.r_of(*x) }).collect() };
            lens(&spec.fwd_image(l, a, b), &spec.rev_image(l, a, b), &blocks(a, true), &blocks(a, false), &blocks(b, true), &blocks(b, false), spec.m(l).len())
        };
        let reference = |p: &Plain| p.substitute(&ob, &op);
        let mut out: Vec<Pair> = vec![];
        let df = Self::to_dev(&c.f);
        let dg = Self::to_dev(&c.g);
        let of = map(&df);
        let pf = Self::c14_plain("O(f)", &of)?;
        let rf = reference(&c.f);
        out.push(("optic-image", pf.clone(), rf.clone()));
        let og = map(&dg);
        if c.f.tgt_type() == c.g.src_type() {
            let comp = df.compose(&dg).ok_or("compose returned None although types match")?;
            let r = of.compose(&og).ok_or("O f ; O g undefined: the optic image is not of type interleave(FA,RA) -> interleave(FB,RB)")?;
            out.push(("preserves-composition", Self::c14_plain("O(f;g)", &map(&comp))?, Self::c14_plain("Of;Og", &r)?));
        }
        out.push(("preserves-tensor", Self::c14_plain("O(f⊗g)", &map(&df.tensor(&dg)))?, Self::c14_plain("Of⊗Og", &of.tensor(&og))?));
        // adapted form: FA ● RB -> FB ● RA
        let (a, b) = (c.f.src_type(), c.f.tgt_type());
        let ad = optic.adapt(&of, &Self::sf(a.clone()), &Self::sf(b.clone()));
        let fwd = |l: L| spec.f_of(l);
        let rev = |l: L| spec.r_of(l);
        let want = adapt_ref(&rf, &widths(&a, &fwd), &widths(&a, &rev), &widths(&b, &fwd), &widths(&b, &rev));
        out.push(("adapted-form", Self::c14_plain("adapt(O f)", &ad)?, want));
        Ok(out)
    }

    /// the reverse-derivative optic of the polynomial-circuit theory on device K
    pub fn c14_deriv(c: &DerivCase) -> Result<DerivObs, String> {
        let fwd = ClosureFunctor { ob: |l| vec![l], op: |l, _a, _b| func::rd_fwd(l) };
        let rev = ClosureFunctor { ob: |l| vec![l], op: |l, _a, _b| func::rd_rev(l) };
        let optic: Optic<ClosureFunctor, ClosureFunctor, K, L, L, L, L> =
            Optic::new(fwd, rev, Box::new(|ops: &Operations<K, L, L>| Self::seg_labels(&K::un(&ops.x.0).iter().map(|x| func::rd_residual(*x)).collect::<Vec<_>>())));
        let df = Self::to_dev(&c.f);
        let of = optic.map_arrow(&df);
        let ad = optic.adapt(&of, &df.source(), &df.target());
        let adapted = Self::c14_plain("adapt(O f)", &ad)?;
        let mut outs = vec![];
        for (x, dy) in &c.inputs {
            let input: Vec<u64> = x.iter().chain(dy.iter()).copied().collect();
            let o = eval::<K, L, L, u64>(&ad, K::arr(input), |ops, args| {
                let labels = K::un(&ops.0);
                let sizes = K::unix(&args.sources.table);
                let vals = K::un(&args.values.0);
                let (mut a, mut osz, mut ov) = (0, vec![], vec![]);
                for (i, l) in labels.iter().enumerate() {
                    let ys = func::poly_interp(*l, &vals[a..a + sizes[i]]);
                    a += sizes[i];
                    osz.push(ys.len());
                    ov.extend(ys);
                }
                IndexedCoproduct::from_semifinite(SemifiniteFunction(K::arr(osz)), SemifiniteFunction(K::arr(ov))).expect("harness: apply result")
            });
            outs.push(o.map(|o| K::un(&o)));
        }
        Ok(DerivObs { monogamous: ad.is_monogamous(), acyclic: ad.is_acyclic(), adapted, outs })
    }
}

/// a generated optic through the lax trait (Vec device): map_arrow and map_adapted
#[derive(Clone)]
pub struct LaxGen {
    pub spec: OSpec,
}
impl lax::optic::Optic<L, L, L, L> for LaxGen {
    fn fwd_object(&self, o: &L) -> Vec<L> {
        self.spec.f_of(*o)
    }
    fn rev_object(&self, o: &L) -> Vec<L> {
        self.spec.r_of(*o)
    }
    fn residual(&self, a: &L) -> Vec<L> {
        self.spec.m(*a)
    }
    fn fwd_operation(&self, a: &L, s: &[L], t: &[L]) -> lax::OpenHypergraph<L, L> {
        lax::OpenHypergraph::from_strict(B::<VecKind>::to_dev(&self.spec.fwd_image(*a, s, t)))
    }
    fn rev_operation(&self, a: &L, s: &[L], t: &[L]) -> lax::OpenHypergraph<L, L> {
        lax::OpenHypergraph::from_strict(B::<VecKind>::to_dev(&self.spec.rev_image(*a, s, t)))
    }
}
fn lax_typing(c: &TypingCase) -> Result<Vec<Pair>, String> {
    use lax::optic::Optic as LaxOptic;
    let spec = &c.spec;
    let o = LaxGen { spec: spec.clone() };
    let ob = |l: L| -> Vec<L> { spec.f_of(l).into_iter().chain(spec.r_of(l)).collect() };
    let op = |l: L, a: &[L], b: &[L]| -> Plain {
        let blocks = |ty: &[L], fwd: bool| -> Vec<Vec<L>> { ty.iter().map(|x| if fwd { spec.f_of(*x) } else { spec.r_of(*x) }).collect() };
        lens(&spec.fwd_image(l, a, b), &spec.rev_image(l, a, b), &blocks(a, true), &blocks(a, false), &blocks(b, true), &blocks(b, false), spec.m(l).len())
    };
    let rf = c.f.substitute(&ob, &op);
    let term = lax::OpenHypergraph::<L, L>::from_strict(B::<VecKind>::to_dev(&c.f));
    let img = B::<VecKind>::from_dev(&o.map_arrow(term.clone()).to_strict()).map_err(|e| format!("lax map_arrow: ill-formed result: {}", e))?;
    let ad = B::<VecKind>::from_dev(&o.map_adapted(term).to_strict()).map_err(|e| format!("lax map_adapted: ill-formed result: {}", e))?;
    let (a, b) = (c.f.src_type(), c.f.tgt_type());
    let fwd = |l: L| spec.f_of(l);
    let rev = |l: L| spec.r_of(l);
    let want_ad = adapt_ref(&rf, &widths(&a, &fwd), &widths(&a, &rev), &widths(&b, &fwd), &widths(&b, &rev));
    Ok(vec![("lax-optic-image", img, rf), ("lax-adapted-form", ad, want_ad)])
}

// the lax entry point: lax::optic::Optic::map_adapted on the Vec device
#[derive(Clone)]
struct LaxRd;
impl lax::optic::Optic<L, L, L, L> for LaxRd {
    fn fwd_object(&self, o: &L) -> Vec<L> {
        vec![*o]
    }
    fn rev_object(&self, o: &L) -> Vec<L> {
        vec![*o]
    }
    fn residual(&self, a: &L) -> Vec<L> {
        func::rd_residual(*a)
    }
    fn fwd_operation(&self, a: &L, _s: &[L], _t: &[L]) -> lax::OpenHypergraph<L, L> {
        lax::OpenHypergraph::from_strict(B::<VecKind>::to_dev(&func::rd_fwd(*a)))
    }
    fn rev_operation(&self, a: &L, _s: &[L], _t: &[L]) -> lax::OpenHypergraph<L, L> {
        lax::OpenHypergraph::from_strict(B::<VecKind>::to_dev(&func::rd_rev(*a)))
    }
}
fn lax_deriv(c: &DerivCase) -> Result<DerivObs, String> {
    use lax::optic::Optic as LaxOptic;
    let term = lax::OpenHypergraph::<L, L>::from_strict(B::<VecKind>::to_dev(&c.f));
    let ad = LaxRd.map_adapted(term).to_strict();
    let adapted = B::<VecKind>::from_dev(&ad).map_err(|e| format!("lax map_adapted: ill-formed result: {}", e))?;
    let mut outs = vec![];
    for (x, dy) in &c.inputs {
        let input: Vec<u64> = x.iter().chain(dy.iter()).copied().collect();
        let o = eval::<VecKind, L, L, u64>(&ad, VecArray(input), |ops, args| {
            let args: Vec<SemifiniteFunction<VecKind, u64>> = args.into_iter().collect();
            let (mut osz, mut ov) = (vec![], vec![]);
            for (l, x) in ops.0.iter().zip(args.iter()) {
                let ys = func::poly_interp(*l, &x.0 .0);
                osz.push(ys.len());
                ov.extend(ys);
            }
            IndexedCoproduct::from_semifinite(SemifiniteFunction(VecArray(osz)), SemifiniteFunction(VecArray(ov))).expect("harness: apply result")
        });
        outs.push(o.map(|o| o.0));
    }
    Ok(DerivObs { monogamous: ad.is_monogamous(), acyclic: ad.is_acyclic(), adapted, outs })
}

/// reference reverse-mode derivative by reverse accumulation over Z/2^64: (f(x), J_f(x)^T dy)
pub fn reverse_mode(f: &Plain, x: &[u64], dy: &[u64]) -> (Vec<u64>, Vec<u64>) {
    let n = f.w.len();
    let mut val: Vec<Option<u64>> = vec![None; n];
    for (i, v) in f.s.iter().enumerate() {
        val[*v] = Some(x[i]);
    }
    // forward sweep in dependency order
    let mut order = vec![];
    let mut done = vec![false; f.e.len()];
    loop {
        let mut progress = false;
        for (i, e) in f.e.iter().enumerate() {
            if !done[i] && e.s.iter().all(|v| val[*v].is_some()) {
                let xs: Vec<u64> = e.s.iter().map(|v| val[*v].unwrap()).collect();
                for (k, y) in func::poly_interp(e.l, &xs).iter().enumerate() {
                    val[e.t[k]] = Some(*y);
                }
                done[i] = true;
                order.push(i);
                progress = true;
            }
        }
        if !progress {
            break;
        }
    }
    assert!(done.iter().all(|d| *d), "harness: circuit not evaluable");
    let v = |i: usize| val[i].unwrap();
    let mut g = vec![0u64; n];
    for (o, d) in f.t.iter().zip(dy) {
        g[*o] = g[*o].wrapping_add(*d);
    }
    for &i in order.iter().rev() {
        let e = &f.e[i];
        match e.l {
            func::ADD => {
                g[e.s[0]] = g[e.s[0]].wrapping_add(g[e.t[0]]);
                g[e.s[1]] = g[e.s[1]].wrapping_add(g[e.t[0]]);
            }
            func::MUL => {
                g[e.s[0]] = g[e.s[0]].wrapping_add(g[e.t[0]].wrapping_mul(v(e.s[1])));
                g[e.s[1]] = g[e.s[1]].wrapping_add(g[e.t[0]].wrapping_mul(v(e.s[0])));
            }
            func::NEG => g[e.s[0]] = g[e.s[0]].wrapping_add(g[e.t[0]].wrapping_neg()),
            func::COPY => g[e.s[0]] = g[e.s[0]].wrapping_add(g[e.t[0]].wrapping_add(g[e.t[1]])),
            _ => {}
        }
    }
    (f.t.iter().map(|o| v(*o)).collect(), f.s.iter().map(|i| g[*i]).collect())
}

fn judge_pairs(ex: &mut Exec, cfg: &str, r: Result<Result<Vec<Pair>, String>, Violation>) -> Result<(), Violation> {
    match r? {
        Err(e) => viol("C14:undefined-or-ill-formed", format!("[{}] {}", cfg, e)),
        Ok(pairs) => {
            for (name, got, want) in pairs {
                if got.src_type() != want.src_type() || got.tgt_type() != want.tgt_type() {
                    return viol(&format!("C14:{}:wrong-type", name), format!("[{}] result has type {:?} -> {:?}, expected {:?} -> {:?}", cfg, got.src_type(), got.tgt_type(), want.src_type(), want.tgt_type()));
                }
                expect_iso(ex, &got, &want, &format!("C14:{}", name), cfg)?;
            }
            Ok(())
        }
    }
}

fn judge_deriv(ex: &mut Exec, c: &DerivCase, cfg: &str, r: Result<Result<DerivObs, String>, Violation>) -> Result<(), Violation> {
    let o = match r? {
        Err(e) => return viol("C14:derivative:undefined-or-ill-formed", format!("[{}] {}", cfg, e)),
        Ok(o) => o,
    };
    let (na, nb) = (c.f.s.len(), c.f.t.len());
    if o.adapted.s.len() != na + nb || o.adapted.t.len() != nb + na {
        return viol("C14:derivative:adapted-type", format!("[{}] adapted optic has {} inputs and {} outputs for a circuit {} -> {}", cfg, o.adapted.s.len(), o.adapted.t.len(), na, nb));
    }
    if !o.monogamous || !graphref::monogamous(&o.adapted) {
        return viol("C14:derivative:adapted-not-monogamous", format!("[{}] the circuit and the generator lenses are monogamous but the adapted optic is not: {:?}", cfg, o.adapted));
    }
    if !o.acyclic {
        return viol("C14:derivative:adapted-cyclic", format!("[{}] adapted optic of an acyclic circuit is cyclic: {:?}", cfg, o.adapted));
    }
    for (i, (x, dy)) in c.inputs.iter().enumerate() {
        let (y, dx) = reverse_mode(&c.f, x, dy);
        let want: Vec<u64> = y.into_iter().chain(dx).collect();
        match &o.outs[i] {
            None => return viol("C14:derivative:not-evaluable", format!("[{}] eval refused the adapted optic of {:?}", cfg, c.f)),
            Some(got) if *got != want => return viol("C14:derivative:wrong-value", format!("[{}] on (x, dy) = ({:?}, {:?}) the adapted optic evaluates to {:?} but (f(x), J^T dy) = {:?}; circuit {:?}", cfg, x, dy, got, want, c.f)),
            _ => {}
        }
    }
    ex.probe("derivatives_checked");
    Ok(())
}

pub fn gen_ospec(r: &mut Rng, node_labels: usize) -> OSpec {
    let out_labels = r.range(1, 2);
    let obj = |r: &mut Rng| -> Vec<Vec<L>> { (0..node_labels.max(1)).map(|_| (0..r.below(3)).map(|_| r.below(out_labels) as L).collect()).collect() };
    let fwd_ob = obj(r);
    let rev_ob = obj(r);
    OSpec {
        fwd_ob,
        rev_ob,
        residual: (0..3).map(|_| (0..r.below(3)).map(|_| r.below(out_labels) as L).collect()).collect(),
        fwd_kind: (0..3).map(|_| r.below(2) as u8).collect(),
        rev_kind: (0..3).map(|_| r.below(2) as u8).collect(),
    }
}

/// random monogamous acyclic circuit: SSA wiring over a pool of dangling wires, random edge order
pub fn gen_poly_circuit(r: &mut Rng, big: bool) -> Plain {
    let nin = r.range(0, 3);
    let mut pool: Vec<usize> = (0..nin).collect();
    let mut nw = nin;
    let mut e = vec![];
    let huge = r.chance(1, if big { 20 } else { 150 });
    for _ in 0..(if huge { r.range(9, 24) } else { r.range(0, if big { 8 } else { 6 }) }) {
        let cands: Vec<L> = [func::ADD, func::MUL, func::NEG, func::COPY, func::DISCARD, func::CONST + r.below(5) as L].into_iter().filter(|a| func::arity(*a).0 <= pool.len()).collect();
        let a = *r.pick(&cands);
        let (m, n) = func::arity(a);
        let ins: Vec<usize> = (0..m)
            .map(|_| {
                let i = r.below(pool.len());
                pool.swap_remove(i)
            })
            .collect();
        let outs: Vec<usize> = (0..n)
            .map(|_| {
                nw += 1;
                nw - 1
            })
            .collect();
        pool.extend(outs.iter().copied());
        e.push(edge(a, ins, outs));
    }
    r.shuffle(&mut pool);
    r.shuffle(&mut e);
    Plain { w: vec![0; nw], e, s: (0..nin).collect(), t: pool }.random_renumbering(r)
}

impl Check for C14 {
    type Case = Case;
    const ID: &'static str = "C14";
    fn runs(tier: Tier) -> u64 {
        crate::runner::scaled(160_000, tier)
    }
    fn generate(r: &mut Rng, tier: Tier) -> Case {
        if r.chance(1, 2) {
            let mut c = gen::draw_cfg(r, tier);
            c.max_extra_nodes = c.max_extra_nodes.min(if c.huge { 140 } else if c.large { 6 } else { 3 });
            c.max_edges = c.max_edges.min(if c.huge { 70 } else if c.large { 4 } else { 2 });
            c.max_iface = c.max_iface.min(if c.huge { 70 } else if c.large { 4 } else { 3 });
            c.max_arity = c.max_arity.min(2);
            let (f, g) = gen::gen_pair(r, &c);
            Case::Typing(TypingCase { f, g, spec: gen_ospec(r, c.node_labels), schedules: r.range(1, 2) })
        } else {
            let big = tier == Tier::Thorough && r.chance(1, 3);
            let f = gen_poly_circuit(r, big);
            let specials = [0u64, 1, 2, 1 << 63, u64::MAX];
            let val = |r: &mut Rng| if r.chance(1, 3) { *r.pick(&specials) } else { r.next() };
            let inputs = (0..r.range(1, 3)).map(|_| ((0..f.s.len()).map(|_| val(r)).collect(), (0..f.t.len()).map(|_| val(r)).collect())).collect();
            Case::Deriv(DerivCase { f, inputs, schedules: r.range(1, 2) })
        }
    }
    fn execute(c: &Case, ex: &mut Exec) -> Result<(), Violation> {
        match c {
            Case::Typing(t) => {
                ex.workload_fp = mix(mix(t.f.fingerprint(), t.g.fingerprint()), crate::rng::hash_str(&format!("{:?}", t.spec)));
                ex.nontrivial = t.f.m() > 0 || t.f.n() > 0;
                ex.probe_if(t.f.n() >= 64 || t.f.m() >= 64 || t.f.s.len() >= 64 || t.f.t.len() >= 64, "size_64_or_more");
                ex.probe_if(t.f.n() >= 256 || t.f.m() >= 256 || t.f.s.len() >= 256 || t.f.t.len() >= 256, "size_256_or_more");
                ex.probe_if(t.f.e.iter().any(|e| t.spec.m(e.l).is_empty()), "residual_empty");
                ex.probe_if(t.f.e.iter().any(|e| t.spec.m(e.l).len() == 1), "residual_single");
                ex.probe_if(t.f.e.iter().any(|e| t.spec.m(e.l).len() >= 2), "residual_multiple");
                ex.probe_if(t.f.m() >= 2, "two_or_more_operations");
                ex.seg_control();
                let r = ex.lib("C14:optic", || B::<SimKind>::c14_typing(t));
                judge_pairs(ex, "sim/control", r)?;
                ex.seg_vec();
                let r = ex.lib("C14:optic", || B::<VecKind>::c14_typing(t));
                judge_pairs(ex, "vec", r)?;
                let r = ex.lib("C14:optic-lax", || lax_typing(t));
                judge_pairs(ex, "vec/lax Optic trait", r)?;
                for _ in 0..t.schedules {
                    let pol = ex.seg_perturbed();
                    let r = ex.lib("C14:optic", || B::<SimKind>::c14_typing(t));
                    let name = ex.cfg_name(&pol);
                    judge_pairs(ex, &name, r)?;
                }
                ex.probe("typing_cases");
                Ok(())
            }
            Case::Deriv(d) => {
                if !graphref::monogamous(&d.f) || graphref::has_op_cycle(&d.f) || d.inputs.iter().any(|(x, dy)| x.len() != d.f.s.len() || dy.len() != d.f.t.len()) || d.f.e.iter().any(|e| (e.s.len(), e.t.len()) != func::arity(e.l)) {
                    return Ok(()); // shrinking left the precondition (monogamous acyclic polynomial circuit)
                }
                ex.workload_fp = mix(d.f.fingerprint(), d.inputs.iter().flat_map(|(x, y)| x.iter().chain(y.iter())).fold(3, |a, v| mix(a, *v)));
                ex.nontrivial = d.f.m() > 0;
                ex.probe_if(d.f.e.iter().any(|e| e.l == func::MUL), "circuit_with_mul");
                ex.probe_if(d.f.e.iter().any(|e| e.l == func::COPY), "circuit_with_copy");
                ex.probe_if(d.f.m() >= 4, "circuit_four_or_more_ops");
                ex.seg_control();
                let r = ex.lib("C14:derivative", || B::<SimKind>::c14_deriv(d));
                judge_deriv(ex, d, "sim/control", r)?;
                ex.seg_vec();
                let r = ex.lib("C14:derivative", || B::<VecKind>::c14_deriv(d));
                judge_deriv(ex, d, "vec", r)?;
                let r = ex.lib("C14:derivative-lax", || lax_deriv(d));
                judge_deriv(ex, d, "vec/lax map_adapted", r)?;
                for _ in 0..d.schedules {
                    let pol = ex.seg_perturbed();
                    let r = ex.lib("C14:derivative", || B::<SimKind>::c14_deriv(d));
                    let name = ex.cfg_name(&pol);
                    judge_deriv(ex, d, &name, r)?;
                }
                let _ = <VecKind as Dev>::NAME;
                Ok(())
            }
        }
    }
    fn shrink(c: &Case) -> Vec<Case> {
        match c {
            Case::Typing(t) => {
                let mut out = vec![];
                if t.schedules > 1 {
                    out.push(Case::Typing(TypingCase { schedules: 1, ..t.clone() }));
                }
                if t.g.size() > 0 {
                    out.push(Case::Typing(TypingCase { g: Plain::empty(), ..t.clone() }));
                }
                for i in 0..t.spec.residual.len() {
                    if !t.spec.residual[i].is_empty() {
                        let mut d = t.clone();
                        d.spec.residual[i].pop();
                        out.push(Case::Typing(d));
                    }
                }
                for which in 0..2 {
                    let obs = if which == 0 { &t.spec.fwd_ob } else { &t.spec.rev_ob };
                    for i in 0..obs.len() {
                        if !obs[i].is_empty() {
                            let mut d = t.clone();
                            if which == 0 {
                                d.spec.fwd_ob[i].pop();
                            } else {
                                d.spec.rev_ob[i].pop();
                            }
                            out.push(Case::Typing(d));
                        }
                    }
                }
                if t.spec.fwd_kind.iter().chain(t.spec.rev_kind.iter()).any(|k| *k != 0) {
                    let mut d = t.clone();
                    d.spec.fwd_kind = vec![0; 3];
                    d.spec.rev_kind = vec![0; 3];
                    out.push(Case::Typing(d));
                }
                for f in shrink_plain(&t.f) {
                    out.push(Case::Typing(TypingCase { f, ..t.clone() }));
                }
                for g in shrink_plain(&t.g) {
                    out.push(Case::Typing(TypingCase { g, ..t.clone() }));
                }
                out
            }
            Case::Deriv(d) => {
                let mut out = vec![];
                if d.schedules > 1 {
                    out.push(Case::Deriv(DerivCase { schedules: 1, ..d.clone() }));
                }
                if d.inputs.len() > 1 {
                    for i in 0..d.inputs.len() {
                        out.push(Case::Deriv(DerivCase { inputs: vec![d.inputs[i].clone()], ..d.clone() }));
                    }
                }
                // remove a hyperedge: its source wires become outputs, its target wires become inputs
                for i in 0..d.f.e.len() {
                    let mut f = d.f.clone();
                    let e = f.e.remove(i);
                    let mut inputs = d.inputs.clone();
                    for v in &e.s {
                        f.t.push(*v);
                        for inp in inputs.iter_mut() {
                            inp.1.push(1);
                        }
                    }
                    for v in &e.t {
                        f.s.push(*v);
                        for inp in inputs.iter_mut() {
                            inp.0.push(1);
                        }
                    }
                    out.push(Case::Deriv(DerivCase { f, inputs, schedules: d.schedules }));
                }
                for i in 0..d.inputs.len() {
                    for side in 0..2 {
                        let len = if side == 0 { d.inputs[i].0.len() } else { d.inputs[i].1.len() };
                        for j in 0..len {
                            let cur = if side == 0 { d.inputs[i].0[j] } else { d.inputs[i].1[j] };
                            if cur > 2 {
                                let mut e = d.clone();
                                if side == 0 {
                                    e.inputs[i].0[j] = 2;
                                } else {
                                    e.inputs[i].1[j] = 1;
                                }
                                out.push(Case::Deriv(e));
                            }
                        }
                    }
                }
                out
            }
        }
    }
    fn rule() -> &'static str {
        "Half of the runs (typing/functoriality): a composable pair (f,g) of small well-formed diagrams and a generated optic: forward and reverse object maps generator -> list of 0-2 labels, residual per operation label of 0-2 objects (empty, single, multiple), forward images F(A) -> F(B)●M and reverse images M●R(B) -> R(A) as single operations or composites; strict Optic<_,_,K,..> on sim/control, vec, 1-2 perturbed schedules, and the lax Optic trait (map_arrow, map_adapted) on the Vec device; oracle: O(f) isomorphic to the reference substitution of *lenses* (forward and reverse image side by side, residual wires glued, R-wires bent) hence type interleave(FA,RA) -> interleave(FB,RB); O(f;g) ≅ Of;Og; O(f⊗g) ≅ Of⊗Og; adapt(O f) isomorphic to the reference re-bending, type FA●RB -> FB●RA. Other half (derivative): a random monogamous acyclic circuit over {add, mul, neg, copy, discard, const c} (0-8 operations, random wiring, edge order and numbering) with 1-3 (x, dy) vectors (0, 1, 2, 2^63, 2^64-1, random); reverse-derivative lenses as a strict Optic generic in K (all configurations) and as lax::optic::Optic::map_adapted (Vec); oracle: adapted optic monogamous, acyclic, evaluable by strict::eval::eval, result = (f(x), J_f(x)^T dy) from reference reverse accumulation over Z/2^64. Non-trivial iff the diagram has an operation (or node); distinct = distinct (workload fingerprint, device decision fingerprint)."
    }
    fn assumptions() -> Vec<&'static str> {
        vec![
            "the generated optics' images are single operations or two-operation composites of the right type (arbitrary image diagrams are C12's subject)",
            "the reference lens / adapt constructions and the reverse accumulation are written on the plain model from the mathematical definitions",
            "the lax entry point runs on the Vec device only",
        ]
    }
    fn required_probes() -> Vec<&'static str> {
        vec!["typing_cases", "derivatives_checked", "residual_empty", "residual_single", "residual_multiple", "two_or_more_operations", "circuit_with_mul", "circuit_with_copy", "circuit_four_or_more_ops"]
    }
    fn components() -> serde_json::Value {
        let mut c = components_s1();
        c["stubs"].as_array_mut().unwrap().push(serde_json::json!("forward / reverse functors and residual map of the optic (second party), the apply callback of eval"));
        c
    }
}
