//! C12 — functor application is the generator-wise substitution it is defined by.

use super::func::{FSpec, SpecFunctor};
use super::{components_s1, expect_iso};
use crate::dev::{B, OH};
use crate::dev_impl;
use crate::gen;
use crate::plain::{shrink_plain, Plain, L};
use crate::rng::{mix, Rng};
use crate::runner::{viol, Check, Exec, Tier, Violation};
use crate::simkind::SimKind;
use open_hypergraphs::array::vec::VecKind;
use open_hypergraphs::category::{Arrow, Monoidal, Spider, SymmetricMonoidal};
use open_hypergraphs::lax;
use open_hypergraphs::strict::functor::identity::Identity;
use open_hypergraphs::strict::functor::Functor;
use serde::{Deserialize, Serialize};

#[derive(Serialize, Deserialize, Clone, Debug)]
pub struct Case {
    pub f: Plain,
    pub g: Plain,
    pub spec: FSpec,
    pub a: Vec<L>,
    pub b: Vec<L>,
    pub schedules: usize,
}

pub struct C12;

pub type Pair = (&'static str, Plain, Plain);

dev_impl! {
    fn c12_plain(name: &str, f: &OH<K>) -> Result<Plain, String> {
        Self::from_dev(f).map_err(|e| format!("{}: ill-formed result: {}", name, e))
    }
    /// every (name, got, expected-up-to-iso) pair of one configuration
    pub fn c12_observe(c: &Case) -> Result<Vec<Pair>, String> {
        let fu = SpecFunctor { spec: &c.spec, native: c.schedules % 2 == 1 };
        let spec = &c.spec;
        let ob = |l: L| spec.ob_of(l);
        let op = |l: L, a: &[L], b: &[L]| spec.image(l, a, b);
        let subst = |p: &Plain| p.substitute(&ob, &op);
        let map = |d: &OH<K>| <SpecFunctor as Functor<K, L, L, L, L>>::map_arrow(&fu, d);
        let mut out: Vec<Pair> = vec![];
        let df = Self::to_dev(&c.f);
        let dg = Self::to_dev(&c.g);
        let ff = map(&df);
        let pf = Self::c12_plain("F(f)", &ff)?;
        out.push(("substitution", pf.clone(), subst(&c.f)));
        // functoriality instances
        let fg = map(&dg);
        if c.f.tgt_type() == c.g.src_type() {
            let comp = df.compose(&dg).ok_or("compose returned None although types match")?;
            let l = map(&comp);
            let r = ff.compose(&fg).ok_or("F f ; F g undefined: F does not map A -> B to F(A) -> F(B)")?;
            out.push(("preserves-composition", Self::c12_plain("F(f;g)", &l)?, Self::c12_plain("Ff;Fg", &r)?));
        }
        out.push(("preserves-tensor", Self::c12_plain("F(f⊗g)", &map(&df.tensor(&dg)))?, Self::c12_plain("Ff⊗Fg", &ff.tensor(&fg))?));
        out.push(("preserves-identity", Self::c12_plain("F(id)", &map(&OH::<K>::identity(Self::sf(c.a.clone()))))?, Plain::identity(&spec.expand(&c.a))));
        let tw = <OH<K> as SymmetricMonoidal>::twist(Self::sf(c.a.clone()), Self::sf(c.b.clone()));
        out.push(("preserves-symmetry", Self::c12_plain("F(twist)", &map(&tw))?, Plain::twist(&spec.expand(&c.a), &spec.expand(&c.b))));
        out.push(("preserves-dagger", Self::c12_plain("F(f†)", &map(&df.dagger()))?, pf.dagger()));
        // the identity functor
        let idf = <Identity as Functor<K, L, L, L, L>>::map_arrow(&Identity, &df);
        out.push(("identity-functor", Self::c12_plain("Id(f)", &idf)?, c.f.clone()));
        Ok(out)
    }
}

/// the lax trait, run through dyn_functor on the Vec device
#[derive(Clone)]
struct LaxSpec {
    spec: FSpec,
    /// hand the operation images over as lax terms that still carry pending unifications
    pending: bool,
}

/// the same diagram as a lax term in which every hyperedge has its own fresh nodes, unified with
/// the original ones (pending, not yet quotiented)
fn exploded(p: &Plain, originals_last: bool) -> lax::OpenHypergraph<L, L> {
    let mut f = lax::OpenHypergraph::<L, L>::empty();
    // the original nodes come first or last: in the second case quotienting renumbers the
    // interface nodes (they are merged into classes that first occur earlier)
    let mut orig: Vec<lax::NodeId> = vec![];
    if !originals_last {
        orig = p.w.iter().map(|l| f.new_node(*l)).collect();
    }
    let mut fresh: Vec<(Vec<lax::NodeId>, Vec<lax::NodeId>)> = vec![];
    for e in &p.e {
        let (_, (s, t)) = f.new_operation(e.l, e.s.iter().map(|v| p.w[*v]).collect(), e.t.iter().map(|v| p.w[*v]).collect());
        fresh.push((s, t));
    }
    if originals_last {
        orig = p.w.iter().map(|l| f.new_node(*l)).collect();
    }
    for (e, (s, t)) in p.e.iter().zip(fresh.iter()) {
        for (fr, o) in s.iter().zip(e.s.iter()).chain(t.iter().zip(e.t.iter())) {
            if originals_last {
                f.unify(orig[*o], *fr);
            } else {
                f.unify(*fr, orig[*o]);
            }
        }
    }
    f.sources = p.s.iter().map(|v| orig[*v]).collect();
    // every output position sits on a twin of its node, unified with it (pending): an edge-less
    // diagram handed over this way is "id ; id" before quotienting, not a quotient-free wiring
    f.targets = p
        .t
        .iter()
        .map(|v| {
            let twin = f.new_node(p.w[*v]);
            if originals_last {
                f.unify(twin, orig[*v]);
            } else {
                f.unify(orig[*v], twin);
            }
            twin
        })
        .collect();
    f
}
impl lax::functor::Functor<L, L, L, L> for LaxSpec {
    fn map_object(&self, o: &L) -> impl ExactSizeIterator<Item = L> {
        self.spec.ob_of(*o).into_iter()
    }
    fn map_operation(&self, a: &L, source: &[L], target: &[L]) -> lax::OpenHypergraph<L, L> {
        let img = self.spec.image(*a, source, target);
        if self.pending {
            exploded(&img, (*a as usize + source.len()) % 2 == 0)
        } else {
            lax::OpenHypergraph::from_strict(B::<VecKind>::to_dev(&img))
        }
    }
    fn map_arrow(&self, f: &lax::OpenHypergraph<L, L>) -> lax::OpenHypergraph<L, L> {
        lax::functor::dyn_functor::define_map_arrow(self, f)
    }
}
fn lax_observe(c: &Case) -> Result<Vec<Pair>, String> {
    use lax::functor::Functor as LaxFunctor;
    let fu = LaxSpec { spec: c.spec.clone(), pending: false };
    let lf = lax::OpenHypergraph::<L, L>::from_strict(B::<VecKind>::to_dev(&c.f));
    let r = fu.map_arrow(&lf);
    let p = B::<VecKind>::from_dev(&r.to_strict()).map_err(|e| format!("lax F(f): ill-formed result: {}", e))?;
    let spec = &c.spec;
    let want = c.f.substitute(&|l| spec.ob_of(l), &|l, a, b| spec.image(l, a, b));
    // the same functor with images that still carry pending unifications, applied to an argument
    // that carries pending unifications too
    let fu2 = LaxSpec { spec: c.spec.clone(), pending: true };
    let r2 = fu2.map_arrow(&exploded(&c.f, c.schedules % 2 == 0));
    let p2 = B::<VecKind>::from_dev(&r2.to_strict()).map_err(|e| format!("lax F(f) with pending unifications: ill-formed result: {}", e))?;
    let id = lax::functor::dyn_functor::Identity.map_arrow(&lf);
    let pid = B::<VecKind>::from_dev(&id.to_strict()).map_err(|e| format!("lax Id(f): ill-formed result: {}", e))?;
    let mut out = vec![("lax-substitution", p, want.clone()), ("lax-substitution-with-pending-unifications", p2, want.clone()), ("lax-identity-functor", pid, c.f.clone())];
    // the native lax path (no detour through the strict representation), on the quotient-free
    // argument: with strict images, with images that still carry pending unifications, and
    // through the witness-returning entry point
    let native: [(&'static str, Option<lax::OpenHypergraph<L, L>>); 3] = [
        ("lax-native-substitution", lax::functor::try_define_map_arrow(&fu, &lf)),
        ("lax-native-substitution-with-pending-images", lax::functor::try_define_map_arrow(&fu2, &lf)),
        ("lax-native-witness-substitution", lax::functor::map_arrow_witness(&fu, &lf).map(|x| x.0)),
    ];
    // the public wrapper that turns a lax functor into a strict one, applied through the strict trait
    {
        use open_hypergraphs::strict::functor::Functor as StrictFunctor;
        let wrapped = lax::functor::dyn_functor::to_dyn_functor(fu.clone());
        let r = wrapped.map_arrow(&B::<VecKind>::to_dev(&c.f));
        let p = B::<VecKind>::from_dev(&r).map_err(|e| format!("to_dyn_functor(F).map_arrow: ill-formed result: {}", e))?;
        out.push(("lax-functor-wrapped-as-strict-substitution", p, want.clone()));
    }
    for (name, r) in native {
        let r = r.ok_or_else(|| format!("{}: the native path reports absence for a diagram without pending unifications", name))?;
        let p = B::<VecKind>::from_dev(&r.to_strict()).map_err(|e| format!("{}: ill-formed result: {}", name, e))?;
        out.push((name, p, want.clone()));
    }
    Ok(out)
}

fn judge(ex: &mut Exec, cfg: &str, r: Result<Result<Vec<Pair>, String>, Violation>) -> Result<(), Violation> {
    match r? {
        Err(e) => viol("C12:undefined-or-ill-formed", format!("[{}] {}", cfg, e)),
        Ok(pairs) => {
            for (name, got, want) in pairs {
                if got.src_type() != want.src_type() || got.tgt_type() != want.tgt_type() {
                    return viol(&format!("C12:{}:wrong-type", name), format!("[{}] result has type {:?} -> {:?}, expected {:?} -> {:?}", cfg, got.src_type(), got.tgt_type(), want.src_type(), want.tgt_type()));
                }
                expect_iso(ex, &got, &want, &format!("C12:{}", name), cfg)?;
            }
            Ok(())
        }
    }
}

pub fn gen_spec(r: &mut Rng, node_labels: usize) -> FSpec {
    let out_labels = r.range(1, 3);
    let style = r.below(4);
    let ob = (0..node_labels.max(1))
        .map(|_| {
            let k = match style {
                0 => 1,             // one node per object
                1 => r.below(2),    // 0 or 1
                _ => r.below(4),    // 0..3
            };
            (0..k).map(|_| r.below(out_labels) as L).collect()
        })
        .collect();
    // one third of the functors map every operation to a single operation
    let all_single = r.chance(1, 3);
    FSpec { ob, kind: (0..3).map(|_| if all_single { 0 } else { r.below(4) as u8 }).collect() }
}

impl Check for C12 {
    type Case = Case;
    const ID: &'static str = "C12";
    fn runs(tier: Tier) -> u64 {
        crate::runner::scaled(280_000, tier)
    }
    fn generate(r: &mut Rng, tier: Tier) -> Case {
        let mut c = gen::draw_cfg(r, tier);
        // images grow by a factor of up to 3: keep the source diagrams small
        c.max_extra_nodes = c.max_extra_nodes.min(if c.huge { 140 } else if c.large { 9 } else { 3 });
        c.max_edges = c.max_edges.min(if c.huge { 70 } else if c.large { 6 } else { 3 });
        c.max_iface = c.max_iface.min(if c.huge { 70 } else if c.large { 5 } else { 3 });
        c.max_arity = c.max_arity.min(3);
        let (f, g) = gen::gen_pair(r, &c);
        let spec = gen_spec(r, c.node_labels);
        Case { f, g, spec, a: gen::gen_type(r, &c), b: gen::gen_type(r, &c), schedules: r.range(1, 2) }
    }
    fn execute(c: &Case, ex: &mut Exec) -> Result<(), Violation> {
        ex.workload_fp = mix(mix(c.f.fingerprint(), c.g.fingerprint()), crate::rng::hash_str(&format!("{:?}{:?}{:?}", c.spec, c.a, c.b)));
        ex.nontrivial = c.f.n() > 0;
        ex.probe_if(c.f.n() >= 64 || c.f.m() >= 64 || c.f.s.len() >= 64 || c.f.t.len() >= 64, "size_64_or_more");
        ex.probe_if(c.f.n() >= 256 || c.f.m() >= 256 || c.f.s.len() >= 256 || c.f.t.len() >= 256, "size_256_or_more");
        ex.probe_if(c.spec.ob.iter().any(|o| o.is_empty()), "object_mapped_to_empty_list");
        ex.probe_if(c.spec.ob.iter().any(|o| o.len() >= 2), "object_mapped_to_many");
        ex.probe_if(c.f.e.iter().any(|e| c.spec.kind[e.l as usize % c.spec.kind.len()] == 1), "composite_image");
        ex.probe_if(c.f.e.iter().any(|e| c.spec.kind[e.l as usize % c.spec.kind.len()] >= 2), "spider_only_or_empty_image");
        ex.probe_if(c.f.e.iter().any(|e| e.s.is_empty() && e.t.is_empty()), "zero_arity_operation");
        ex.probe_if(!crate::graphref::node_acyclic(&c.f), "cyclic_source_diagram");

        ex.seg_control();
        let r = ex.lib("C12:map_arrow", || B::<SimKind>::c12_observe(c));
        judge(ex, "sim/control", r)?;
        ex.seg_vec();
        let r = ex.lib("C12:map_arrow", || B::<VecKind>::c12_observe(c));
        judge(ex, "vec", r)?;
        let r = ex.lib("C12:lax-map_arrow", || lax_observe(c));
        judge(ex, "vec/lax dyn_functor", r)?;
        for _ in 0..c.schedules {
            let pol = ex.seg_perturbed();
            let r = ex.lib("C12:map_arrow", || B::<SimKind>::c12_observe(c));
            let name = ex.cfg_name(&pol);
            judge(ex, &name, r)?;
        }
        Ok(())
    }
    fn shrink(c: &Case) -> Vec<Case> {
        let mut out = vec![];
        if c.schedules > 1 {
            out.push(Case { schedules: 1, ..c.clone() });
        }
        if c.g.size() > 0 {
            out.push(Case { g: Plain::empty(), ..c.clone() });
        }
        if c.f.size() > 0 {
            out.push(Case { f: Plain::empty(), ..c.clone() });
        }
        for i in 0..2 {
            let mut d = c.clone();
            let t = if i == 0 { &mut d.a } else { &mut d.b };
            if !t.is_empty() {
                t.pop();
                out.push(d);
            }
        }
        // simplify the functor: all images single operations; object images shorter
        if c.spec.kind.iter().any(|k| *k != 0) {
            let mut d = c.clone();
            d.spec.kind = vec![0; d.spec.kind.len()];
            out.push(d);
        }
        for i in 0..c.spec.ob.len() {
            if c.spec.ob[i].len() > 1 {
                let mut d = c.clone();
                d.spec.ob[i].pop();
                out.push(d);
            }
            if c.spec.ob[i] != vec![0] {
                let mut d = c.clone();
                d.spec.ob[i] = vec![0];
                out.push(d);
            }
        }
        for f in shrink_plain(&c.f) {
            out.push(Case { f, ..c.clone() });
        }
        for g in shrink_plain(&c.g) {
            out.push(Case { g, ..c.clone() });
        }
        out
    }
    fn rule() -> &'static str {
        "Each run draws a composable pair (f,g) of small well-formed diagrams (<= ~6 nodes, <= 3 hyperedges; non-monogamous, cyclic, isolated nodes, zero-arity operations included), two object lists and a functor spec: object map generator -> list of length 1 / 0-1 / 0-3 over 1-3 target labels, operation map per label one of {single operation, composite of two operations, spider-only, empty-when-possible}. A harness-defined strict::Functor<K,..> generic in the device applies it on sim/control, vec and 1-2 perturbed schedules; the lax trait runs through dyn_functor on the Vec device, once with strict images and argument and once with images and argument that still carry pending unifications (every hyperedge on fresh nodes unified with the original ones and every output position on a twin node unified with its node, in two node orders); the wrapper to_dyn_functor (applied through the strict trait) and the native lax entry points try_define_map_arrow (strict and pending images) and map_arrow_witness (diagram component) are applied to the quotient-free argument and must be present and isomorphic to the same substitution. Oracle: F(f) isomorphic to the reference substitution (node -> list, hyperedge -> image glued along expanded ports), hence the type; F(f;g) ≅ Ff;Fg, F(f⊗g) ≅ Ff⊗Fg, F(id) ≅ id, F(twist) ≅ twist, F(f†) ≅ (Ff)†, Identity functor ≅ argument. Non-trivial iff f has a node; distinct = distinct (workload fingerprint, device decision fingerprint)."
    }
    fn assumptions() -> Vec<&'static str> {
        vec![
            "the functor (second party) is owned by the harness: its operation images are built on the plain model and handed to the library through the checked constructors",
            "reference substitution = disjoint union of expanded nodes and image diagrams quotiented along expanded ports (plain model)",
        ]
    }
    fn required_probes() -> Vec<&'static str> {
        vec!["object_mapped_to_empty_list", "object_mapped_to_many", "composite_image", "spider_only_or_empty_image", "zero_arity_operation", "cyclic_source_diagram"]
    }
    fn components() -> serde_json::Value {
        let mut c = components_s1();
        c["stubs"].as_array_mut().unwrap().push(serde_json::json!("the functor (second party): harness-defined strict::Functor generic in K, and a lax::functor::Functor run through dyn_functor"));
        c
    }
}
