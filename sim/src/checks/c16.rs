//! C16 — evaluation computes the diagram's function and refuses cyclic diagrams.
//!
//! The simulator owns the `apply` callback (the second party): every batch handed to it is
//! recorded, and the recorded history is checked for exactly-once interpretation in a
//! dependency-respecting order.  Hyperedge labels carry a unique id so that batches identify
//! hyperedges exactly.

use super::components_s1;
use crate::dev::B;
use crate::dev_impl;
use crate::graphref::{self, has_op_cycle, launch_budget, op_successors};
use crate::plain::{edge, Plain, L};
use crate::rng::{mix, Rng};
use crate::runner::{viol, Check, Exec, Tier, Violation};
use crate::simkind::SimKind;
use open_hypergraphs::array::vec::VecKind;
use open_hypergraphs::indexed_coproduct::IndexedCoproduct;
use open_hypergraphs::semifinite::SemifiniteFunction;
use open_hypergraphs::strict::eval::eval;
use serde::{Deserialize, Serialize};
use std::cell::RefCell;

pub const OPCODES: u32 = 8;

/// label = opcode + OPCODES * unique id
pub fn opcode(l: L) -> u32 {
    l % OPCODES
}
pub fn uid(l: L) -> usize {
    (l / OPCODES) as usize
}

/// the test signature: arithmetic and boolean gates of any arity over Z/2^64
pub fn interp(l: L, args: &[u64], n_out: usize) -> Vec<u64> {
    let id = uid(l) as u64;
    (0..n_out as u64)
        .map(|k| match opcode(l) {
            0 => args.iter().fold(k, |a, x| a.wrapping_add(*x)),
            1 => args.iter().fold(1u64, |a, x| a.wrapping_mul(*x)).wrapping_add(k),
            2 => args.iter().fold(k, |a, x| a ^ *x),
            3 => args.first().copied().unwrap_or(0).wrapping_neg().wrapping_add(k),
            4 => id.wrapping_mul(0x9E37).wrapping_add(k), // a constant
            5 => args.iter().fold(u64::MAX, |a, x| a & *x) ^ k,
            6 => args.iter().fold(mix(id, k), |a, x| mix(a, *x)),
            _ => args.get(k as usize % args.len().max(1)).copied().unwrap_or(k), // copy / projection
        })
        .collect()
}

#[derive(Serialize, Deserialize, Clone, Debug)]
pub struct Case {
    pub f: Plain,
    /// node and edge renumberings of the same diagram
    pub renumberings: Vec<(Vec<usize>, Vec<usize>)>,
    pub inputs: Vec<Vec<u64>>,
    pub schedules: usize,
}

pub struct C16;

#[derive(Debug)]
pub struct Obs {
    pub out: Option<Vec<u64>>,
    /// recorded history of the callback: one entry per batch, (label, args) per operation
    pub batches: Vec<Vec<(L, Vec<u64>)>>,
    /// the callback saw something malformed (lengths disagree)
    pub callback_error: Option<String>,
}

dev_impl! {
    pub fn c16_eval(f: &Plain, input: &[u64]) -> Obs {
        let d = Self::to_dev(f);
        let n_out_of: Vec<usize> = {
            // arity lookup by unique id
            let mut v = vec![0; f.e.iter().map(|e| uid(e.l) + 1).max().unwrap_or(0)];
            for e in &f.e {
                v[uid(e.l)] = e.t.len();
            }
            v
        };
        let batches: RefCell<Vec<Vec<(L, Vec<u64>)>>> = RefCell::new(vec![]);
        let err: RefCell<Option<String>> = RefCell::new(None);
        let out = eval::<K, L, L, u64>(&d, K::arr(input.to_vec()), |ops: SemifiniteFunction<K, L>, args: IndexedCoproduct<K, SemifiniteFunction<K, u64>>| {
            let labels = K::un(&ops.0);
            let sizes = K::unix(&args.sources.table);
            let vals = K::un(&args.values.0);
            let mut batch = vec![];
            let mut out_sizes = vec![];
            let mut out_vals: Vec<u64> = vec![];
            if sizes.len() != labels.len() || sizes.iter().sum::<usize>() != vals.len() {
                *err.borrow_mut() = Some(format!("apply called with {} labels, {} argument segments of total {} for {} values", labels.len(), sizes.len(), sizes.iter().sum::<usize>(), vals.len()));
            }
            let mut a = 0;
            for (i, l) in labels.iter().enumerate() {
                let k = sizes.get(i).copied().unwrap_or(0);
                let xs: Vec<u64> = vals.get(a..a + k).map(|s| s.to_vec()).unwrap_or_default();
                a += k;
                let n_out = n_out_of.get(uid(*l)).copied().unwrap_or(0);
                let ys = interp(*l, &xs, n_out);
                out_sizes.push(ys.len());
                out_vals.extend(ys);
                batch.push((*l, xs));
            }
            batches.borrow_mut().push(batch);
            IndexedCoproduct::from_semifinite(SemifiniteFunction(K::arr(out_sizes)), SemifiniteFunction(K::arr(out_vals))).expect("harness: apply result")
        });
        Obs { out: out.map(|o| K::un(&o)), batches: batches.into_inner(), callback_error: err.into_inner() }
    }
}

/// reference interpreter: every hyperedge once, in dependency order, on the plain model.
/// Returns (output values, per-edge argument values).  Precondition: acyclic, single writers.
pub fn reference_eval(f: &Plain, input: &[u64]) -> (Vec<u64>, Vec<Vec<u64>>) {
    let n = f.w.len();
    let mut val: Vec<Option<u64>> = vec![None; n];
    for (i, v) in f.s.iter().enumerate() {
        val[*v] = Some(input[i]);
    }
    let m = f.e.len();
    let mut done = vec![false; m];
    let mut args: Vec<Vec<u64>> = vec![vec![]; m];
    loop {
        let mut progress = false;
        for i in 0..m {
            if done[i] {
                continue;
            }
            if f.e[i].s.iter().all(|v| val[*v].is_some()) {
                let xs: Vec<u64> = f.e[i].s.iter().map(|v| val[*v].unwrap()).collect();
                let ys = interp(f.e[i].l, &xs, f.e[i].t.len());
                for (k, v) in f.e[i].t.iter().enumerate() {
                    val[*v] = Some(ys[k]);
                }
                args[i] = xs;
                done[i] = true;
                progress = true;
            }
        }
        if !progress {
            break;
        }
    }
    assert!(done.iter().all(|d| *d), "harness: generated circuit is not evaluable");
    (f.t.iter().map(|v| val[*v].expect("harness: output reads an unwritten node")).collect(), args)
}

fn judge(ex: &mut Exec, f: &Plain, input: &[u64], cfg: &str, o: &Obs, cyclic: bool) -> Result<(), Violation> {
    if let Some(e) = &o.callback_error {
        return viol("C16:eval:malformed-batch", format!("[{}] {} in {:?}", cfg, e, f));
    }
    if cyclic {
        if o.out.is_some() {
            return viol("C16:eval:cyclic-diagram-evaluated", format!("[{}] the dependency relation of {:?} has a cycle but eval returned {:?}", cfg, f, o.out));
        }
        // Interpreting operations that are not on or downstream of a cycle before refusing is tolerated
        // (their source values exist); an operation on or downstream of a cycle has no source values, so
        // handing it to the interpreter means running user code on data that does not exist.
        let visited = graphref::op_visited(f);
        for b in &o.batches {
            for (l, xs) in b {
                if let Some(i) = f.e.iter().position(|e| e.l == *l) {
                    if !visited[i] {
                        return viol("C16:eval:interpreted-an-operation-on-a-cycle", format!("[{}] eval refused the cyclic diagram {:?} but first handed hyperedge {} (on or downstream of a cycle, so without source values) to the interpreter with arguments {:?}", cfg, f, i, xs));
                    }
                }
            }
        }
        ex.probe_if(!o.batches.is_empty(), "visited_prefix_interpreted_before_refusal");
        ex.probe("cyclic_refused");
        return Ok(());
    }
    let (want, args) = reference_eval(f, input);
    let got = match &o.out {
        None => return viol("C16:eval:acyclic-diagram-refused", format!("[{}] eval returned None for the acyclic diagram {:?}", cfg, f)),
        Some(g) => g,
    };
    if *got != want {
        return viol("C16:eval:wrong-value", format!("[{}] eval returned {:?}, the reference interpreter {:?}, for inputs {:?} on {:?}", cfg, got, want, input, f));
    }
    // history: exactly once, with exactly its source values, in a dependency-respecting order
    let m = f.e.len();
    let by_uid: Vec<Option<usize>> = {
        let mut v = vec![None; f.e.iter().map(|e| uid(e.l) + 1).max().unwrap_or(0)];
        for (i, e) in f.e.iter().enumerate() {
            v[uid(e.l)] = Some(i);
        }
        v
    };
    let mut batch_of: Vec<Option<usize>> = vec![None; m];
    for (bi, b) in o.batches.iter().enumerate() {
        for (l, xs) in b {
            let i = match by_uid.get(uid(*l)).copied().flatten() {
                Some(i) if f.e[i].l == *l => i,
                _ => return viol("C16:eval:unknown-operation-interpreted", format!("[{}] apply was handed label {} which is no hyperedge of {:?}", cfg, l, f)),
            };
            if batch_of[i].is_some() {
                return viol("C16:eval:interpreted-twice", format!("[{}] hyperedge {} was interpreted in batches {} and {} of {:?}", cfg, i, batch_of[i].unwrap(), bi, f));
            }
            batch_of[i] = Some(bi);
            if *xs != args[i] {
                return viol("C16:eval:wrong-arguments", format!("[{}] hyperedge {} was interpreted on {:?} but its source nodes hold {:?} in {:?}", cfg, i, xs, args[i], f));
            }
        }
    }
    if let Some(i) = (0..m).find(|i| batch_of[*i].is_none()) {
        return viol("C16:eval:never-interpreted", format!("[{}] hyperedge {} was never handed to apply in {:?}", cfg, i, f));
    }
    let succ = op_successors(f);
    for x in 0..m {
        for &y in &succ[x] {
            if !(batch_of[y].unwrap() > batch_of[x].unwrap()) {
                return viol("C16:eval:order-violates-dependency", format!("[{}] hyperedge {} (batch {}) depends on {} (batch {}) in {:?}", cfg, y, batch_of[y].unwrap(), x, batch_of[x].unwrap(), f));
            }
        }
    }
    ex.probe_if(o.batches.iter().any(|b| b.len() >= 2), "batch_of_two_or_more");
    Ok(())
}

/// constructive generator: single-writer acyclic circuits with fan-out through shared nodes
pub fn gen_circuit(r: &mut Rng, big: bool) -> Plain {
    let n_in = r.range(0, 3);
    let mut w: Vec<L> = vec![0; n_in];
    let mut e = vec![];
    let huge = r.chance(1, if big { 20 } else { 150 });
    let giant = huge && r.chance(1, 4);
    let m = if giant { *r.pick(&[70, 140, 280]) } else if huge { r.range(10, 40) } else { r.range(0, if big { 9 } else { 6 }) };
    for id in 0..m {
        let n = w.len();
        let ks = if n == 0 { 0 } else { r.range(0, 3) };
        let s: Vec<usize> = (0..ks).map(|_| if r.chance(1, 2) { n - 1 - r.below(n.min(3)) } else { r.below(n) }).collect();
        let kt = r.range(0, 3);
        let t: Vec<usize> = (0..kt)
            .map(|_| {
                w.push(0);
                w.len() - 1
            })
            .collect();
        e.push(edge(r.below(OPCODES as usize) as L + OPCODES * id as L, s, t));
    }
    let n = w.len();
    let s: Vec<usize> = (0..n_in).collect();
    let t: Vec<usize> = if n == 0 { vec![] } else { (0..r.below(4)).map(|_| r.below(n)).collect() };
    // an isolated, never-read node now and then
    if r.chance(1, 6) {
        w.push(0);
    }
    Plain { w, e, s, t }
}

fn relabel_unique(mut f: Plain, r: &mut Rng) -> Plain {
    for (id, e) in f.e.iter_mut().enumerate() {
        e.l = r.below(OPCODES as usize) as L + OPCODES * id as L;
    }
    f
}

impl Check for C16 {
    type Case = Case;
    const ID: &'static str = "C16";
    fn runs(tier: Tier) -> u64 {
        crate::runner::scaled(400000, tier)
    }
    fn generate(r: &mut Rng, tier: Tier) -> Case {
        let big = tier == Tier::Thorough && r.chance(1, 3);
        let f = if r.chance(1, 5) {
            // arbitrary (mostly cyclic) diagrams for the refusal clause; kept only if cyclic
            let g = relabel_unique(if r.chance(1, 2) { graphref::gen_dense(r, big) } else { graphref::gen_layered(r, big) }, r);
            if has_op_cycle(&g) {
                g
            } else {
                gen_circuit(r, big)
            }
        } else {
            gen_circuit(r, big)
        };
        let renumberings = (0..3).map(|_| (r.perm(f.n()), r.perm(f.m()))).collect();
        let specials = [0u64, 1, 2, 1 << 63, u64::MAX];
        let inputs = (0..r.range(1, 3)).map(|_| (0..f.s.len()).map(|_| if r.chance(1, 3) { *r.pick(&specials) } else { r.next() }).collect()).collect();
        Case { f, renumberings, inputs, schedules: r.range(1, 3) }
    }
    fn execute(c: &Case, ex: &mut Exec) -> Result<(), Violation> {
        let cyclic = has_op_cycle(&c.f);
        ex.workload_fp = mix(c.f.fingerprint(), c.inputs.iter().flatten().fold(7, |a, x| mix(a, *x)));
        ex.nontrivial = c.f.m() >= 1;
        ex.probe_if(c.f.n() >= 64 || c.f.m() >= 64 || c.f.s.len() >= 64 || c.f.t.len() >= 64, "size_64_or_more");
        ex.probe_if(c.f.n() >= 256 || c.f.m() >= 256 || c.f.s.len() >= 256 || c.f.t.len() >= 256, "size_256_or_more");
        ex.probe_if(cyclic, "cyclic_workload");
        ex.probe_if(!cyclic && (0..c.f.n()).any(|v| c.f.e.iter().map(|e| e.s.iter().filter(|x| **x == v).count()).sum::<usize>() >= 2), "fan_out_through_shared_node");
        ex.probe_if(!cyclic && graphref::op_depths(&c.f, &vec![true; c.f.m()]).0 >= 3, "depth_three_or_more");
        // the identity numbering plus the drawn renumberings
        let mut variants: Vec<Plain> = vec![c.f.clone()];
        for (np, ep) in &c.renumberings {
            if np.len() == c.f.n() && ep.len() == c.f.m() {
                variants.push(c.f.renumber(np, ep));
            }
        }
        for input in &c.inputs {
            if input.len() != c.f.s.len() {
                continue;
            }
            for (vi, g) in variants.iter().enumerate() {
                let budget = launch_budget(g);
                ex.seg_control();
                let o = ex.lib_budget("C16:eval", budget, || B::<SimKind>::c16_eval(g, input))?;
                judge(ex, g, input, &format!("sim/control numbering#{}", vi), &o, cyclic)?;
                ex.seg_vec();
                let o = ex.lib_budget("C16:eval", budget, || B::<VecKind>::c16_eval(g, input))?;
                judge(ex, g, input, &format!("vec numbering#{}", vi), &o, cyclic)?;
                for _ in 0..c.schedules {
                    let pol = ex.seg_perturbed();
                    let o = ex.lib_budget("C16:eval", budget, || B::<SimKind>::c16_eval(g, input))?;
                    let name = format!("{} numbering#{}", ex.cfg_name(&pol), vi);
                    judge(ex, g, input, &name, &o, cyclic)?;
                }
            }
        }
        Ok(())
    }
    fn shrink(c: &Case) -> Vec<Case> {
        let mut out = vec![];
        if c.schedules > 1 {
            out.push(Case { schedules: 1, ..c.clone() });
        }
        if !c.renumberings.is_empty() {
            out.push(Case { renumberings: vec![], ..c.clone() });
            // apply one renumbering for good and drop the rest
            for (np, ep) in &c.renumberings {
                if np.len() == c.f.n() && ep.len() == c.f.m() {
                    out.push(Case { f: c.f.renumber(np, ep), renumberings: vec![], ..c.clone() });
                }
            }
        }
        if c.inputs.len() > 1 {
            for i in 0..c.inputs.len() {
                out.push(Case { inputs: vec![c.inputs[i].clone()], ..c.clone() });
            }
        }
        // structural shrinking must keep the precondition (acyclic + single writer + no unwritten reads)
        let cyclic = has_op_cycle(&c.f);
        for g in crate::plain::shrink_plain(&c.f) {
            if g.e.iter().zip(c.f.e.iter()).any(|(a, b)| a.l != b.l) && g.e.len() == c.f.e.len() {
                continue; // label simplification would destroy unique ids
            }
            if has_op_cycle(&g) != cyclic {
                continue;
            }
            if !cyclic && !precondition(&g) {
                continue;
            }
            let inputs: Vec<Vec<u64>> = c.inputs.iter().map(|i| i.iter().copied().take(g.s.len()).collect::<Vec<u64>>()).filter(|i: &Vec<u64>| i.len() == g.s.len()).collect();
            if inputs.is_empty() {
                continue;
            }
            out.push(Case { f: g, renumberings: vec![], inputs, schedules: c.schedules });
        }
        for i in 0..c.inputs.len() {
            for j in 0..c.inputs[i].len() {
                if c.inputs[i][j] > 1 {
                    let mut d = c.clone();
                    d.inputs[i][j] = 1;
                    out.push(d);
                }
            }
        }
        out
    }
    fn rule() -> &'static str {
        "4/5 of the runs draw a constructively acyclic single-writer circuit over a test signature of 8 gate families (add, mul, xor, neg, const, and, hash-mix, copy/projection; any arity; Z/2^64) with fan-out through shared nodes, 1/5 a cyclic diagram (refusal clause). Each diagram is evaluated under its own numbering and 3 random renumberings of nodes and hyperedges x (sim/control, vec, 1-3 perturbed schedules) x 1-3 input vectors (special values 0,1,2,2^63,2^64-1 and random). The harness owns the apply callback and records every batch; hyperedge labels carry unique ids. Oracle: result = reference recursive interpreter; over the recorded history every hyperedge interpreted exactly once with exactly its source values, batches in dependency-respecting order; None iff the reference finds a dependency cycle, and an operation on or downstream of a cycle (which has no source values) is never handed to the interpreter. Non-trivial iff >= 1 hyperedge; distinct = distinct (diagram+inputs fingerprint, device decision fingerprint)."
    }
    fn assumptions() -> Vec<&'static str> {
        vec![
            "precondition generated, not assumed: acyclic dependencies, every node written at most once, every node that is read is written",
            "the values of nodes that are never written are not constrained (property is silent)",
            "renumbered copies are produced by the harness (plain model), so 'independent of numbering' is checked as agreement of every numbering with the numbering-free reference value",
        ]
    }
    fn required_probes() -> Vec<&'static str> {
        vec!["cyclic_refused", "batch_of_two_or_more", "fan_out_through_shared_node", "depth_three_or_more", "cyclic_workload"]
    }
    fn components() -> serde_json::Value {
        let mut c = components_s1();
        c["stubs"].as_array_mut().unwrap().push(serde_json::json!("the apply callback (second party): owned by the simulator, records every batch"));
        c
    }
}

/// C16's evaluation precondition on the plain model
pub fn precondition(f: &Plain) -> bool {
    let n = f.w.len();
    let mut writers = vec![0usize; n];
    for v in &f.s {
        writers[*v] += 1;
    }
    for e in &f.e {
        for v in &e.t {
            writers[*v] += 1;
        }
    }
    if writers.iter().any(|k| *k > 1) {
        return false;
    }
    let read = |v: usize| f.t.contains(&v) || f.e.iter().any(|e| e.s.contains(&v));
    (0..n).all(|v| !read(v) || writers[v] == 1) && !has_op_cycle(f)
}
