//! C18 — hypergraph morphism validation, monomorphism and convexity tests are exact.

use super::components_s1;
use crate::dev::B;
use crate::dev_impl;
use crate::graphref::{launch_budget, node_successors, reach_plus};
use crate::plain::{edge, Plain, L};
use crate::rng::{mix, Rng};
use crate::runner::{viol, Check, Exec, Tier, Violation};
use crate::simkind::SimKind;
use open_hypergraphs::array::vec::VecKind;
use open_hypergraphs::strict::hypergraph::arrow::{HypergraphArrow, InvalidHypergraphArrow};
use serde::{Deserialize, Serialize};

#[derive(Serialize, Deserialize, Clone, Debug)]
pub struct Case {
    /// source and target hypergraphs (interfaces unused)
    pub g: Plain,
    pub h: Plain,
    /// node map with its claimed codomain, edge map with its claimed codomain
    pub w: Vec<usize>,
    pub w_cod: usize,
    pub x: Vec<usize>,
    pub x_cod: usize,
    /// what the generator did (for the evidence only)
    pub corruption: String,
    pub schedules: usize,
}

pub struct C18;

#[derive(Debug, PartialEq, Clone)]
pub enum Obs {
    Rejected(&'static str),
    Accepted { mono: bool, convex: bool },
}

dev_impl! {
    pub fn c18_observe(c: &Case) -> Obs {
        let g = Self::to_hg(&c.g);
        let h = Self::to_hg(&c.h);
        let w = Self::ff(c.w.clone(), c.w_cod);
        let x = Self::ff(c.x.clone(), c.x_cod);
        match HypergraphArrow::new(g, h, w, x) {
            Err(e) => Obs::Rejected(match e {
                InvalidHypergraphArrow::TypeMismatchW => "TypeMismatchW",
                InvalidHypergraphArrow::TypeMismatchX => "TypeMismatchX",
                InvalidHypergraphArrow::NotNaturalW => "NotNaturalW",
                InvalidHypergraphArrow::NotNaturalX => "NotNaturalX",
                InvalidHypergraphArrow::NotNaturalS => "NotNaturalS",
                InvalidHypergraphArrow::NotNaturalT => "NotNaturalT",
            }),
            Ok(a) => Obs::Accepted { mono: a.is_monomorphism(), convex: a.is_convex_subgraph() },
        }
    }
}

/// which families of conditions fail by the definition: [W, X, S, T]
pub fn failing(c: &Case) -> [bool; 4] {
    let w_typed = c.w.len() == c.g.n() && c.w_cod == c.h.n();
    let x_typed = c.x.len() == c.g.m() && c.x_cod == c.h.m();
    let w_fail = !w_typed || (0..c.g.n()).any(|v| c.g.w[v] != c.h.w[c.w[v]]);
    let x_fail = !x_typed || (0..c.g.m()).any(|i| c.g.e[i].l != c.h.e[c.x[i]].l);
    let inc = |src: bool| -> bool {
        if !w_typed || !x_typed {
            return true; // a mistyped map fails every family it feeds
        }
        (0..c.g.m()).any(|i| {
            let (a, b) = if src { (&c.g.e[i].s, &c.h.e[c.x[i]].s) } else { (&c.g.e[i].t, &c.h.e[c.x[i]].t) };
            a.iter().map(|v| c.w[*v]).collect::<Vec<_>>() != *b
        })
    };
    [w_fail, x_fail, inc(true), inc(false)]
}

fn injective(v: &[usize]) -> bool {
    (0..v.len()).all(|i| !v[..i].contains(&v[i]))
}

/// convexity by the definition: monomorphism, and no directed path between two nodes of the image
/// passes through a hyperedge outside the image
pub fn convex_ref(c: &Case) -> bool {
    if !injective(&c.w) || !injective(&c.x) {
        return false;
    }
    let h = &c.h;
    let reach = reach_plus(&node_successors(h));
    let to = |u: usize, v: usize| u == v || reach[u][v];
    for (j, e) in h.e.iter().enumerate() {
        if c.x.contains(&j) {
            continue;
        }
        let enters = c.w.iter().any(|u| e.s.iter().any(|s| to(*u, *s)));
        let leaves = c.w.iter().any(|v| e.t.iter().any(|t| to(*t, *v)));
        if enters && leaves {
            return false;
        }
    }
    true
}

fn family(name: &str) -> usize {
    match name {
        "TypeMismatchW" | "NotNaturalW" => 0,
        "TypeMismatchX" | "NotNaturalX" => 1,
        "NotNaturalS" => 2,
        _ => 3,
    }
}

fn judge(ex: &mut Exec, c: &Case, cfg: &str, o: &Obs) -> Result<(), Violation> {
    let fails = failing(c);
    let valid = !fails.iter().any(|f| *f);
    match o {
        Obs::Rejected(name) => {
            if valid {
                return viol("C18:new:rejected-a-morphism", format!("[{}] HypergraphArrow::new answered {} but labels and ordered incidence are all preserved: {:?}", cfg, name, c));
            }
            if !fails[family(name)] {
                return viol("C18:new:names-a-condition-that-holds", format!("[{}] rejection names {} but that family of conditions holds (failing families W,X,S,T = {:?}): {:?}", cfg, name, fails, c));
            }
            ex.probe("rejected");
        }
        Obs::Accepted { mono, convex } => {
            if !valid {
                return viol("C18:new:accepted-a-non-morphism", format!("[{}] accepted although failing families (W,X,S,T) = {:?}: {:?}", cfg, fails, c));
            }
            ex.probe("accepted");
            let want_mono = injective(&c.w) && injective(&c.x);
            if *mono != want_mono {
                return viol("C18:is_monomorphism:wrong-answer", format!("[{}] is_monomorphism = {} but injectivity of both maps is {}: {:?}", cfg, mono, want_mono, c));
            }
            let want_convex = convex_ref(c);
            if *convex != want_convex {
                return viol("C18:is_convex_subgraph:wrong-answer", format!("[{}] is_convex_subgraph = {} but by definition {}: {:?}", cfg, convex, want_convex, c));
            }
            ex.probe(if want_convex { "convex" } else { "not_convex" });
            ex.probe_if(!want_mono, "accepted_non_mono");
        }
    }
    Ok(())
}

fn gen_case(r: &mut Rng, big: bool) -> Case {
    // 1. the sub-hypergraph G
    let labels = r.range(1, 3);
    let huge = r.chance(1, if big { 20 } else { 150 });
    // a quarter of the unusually large cases go past the usual power-of-two thresholds
    let giant = huge && r.chance(1, 4);
    let gn = if giant { *r.pick(&[40, 70, 140, 270]) } else if huge { r.range(5, 16) } else { r.range(0, if big { 5 } else { 4 }) };
    let gm = if gn == 0 { r.below(2) } else if giant { *r.pick(&[10, 70, 140, 270]) } else if huge { r.range(2, 10) } else { r.range(0, 3) };
    let side = |r: &mut Rng, n: usize| -> Vec<usize> {
        if n == 0 {
            vec![]
        } else {
            (0..r.below(3)).map(|_| r.below(n)).collect()
        }
    };
    let mut g = Plain { w: (0..gn).map(|_| r.below(labels) as L).collect(), e: vec![], s: vec![], t: vec![] };
    for _ in 0..gm {
        let s = side(r, gn);
        let t = side(r, gn);
        g.e.push(edge(r.below(2) as L, s, t));
    }
    // 2. the target H: G plus extra nodes and extra hyperedges over all nodes
    let mut h = g.clone();
    for _ in 0..(if giant { *r.pick(&[2, 30, 70, 140]) } else if huge { r.range(2, 16) } else { r.range(0, if big { 4 } else { 3 }) }) {
        h.w.push(r.below(labels) as L);
    }
    let hn = h.w.len();
    for _ in 0..(if giant { *r.pick(&[3, 30, 70, 140]) } else if huge { r.range(3, 14) } else { r.range(0, if big { 5 } else { 4 }) }) {
        let s = side(r, hn);
        let t = side(r, hn);
        h.e.push(edge(r.below(2) as L, s, t));
    }
    let mut w: Vec<usize> = (0..gn).collect();
    let mut x: Vec<usize> = (0..gm).collect();
    // 3. optional identifications in H
    if hn >= 2 && r.chance(1, 4) {
        let (a, b) = (r.below(hn), r.below(hn));
        if a != b && h.w[a] == h.w[b] {
            let (keep, drop) = (a.min(b), a.max(b));
            let m = |v: usize| if v == drop { keep } else if v > drop { v - 1 } else { v };
            h.w.remove(drop);
            for e in h.e.iter_mut() {
                e.s = e.s.iter().map(|v| m(*v)).collect();
                e.t = e.t.iter().map(|v| m(*v)).collect();
            }
            w = w.iter().map(|v| m(*v)).collect();
        }
    }
    if gm >= 2 && r.chance(1, 4) {
        // identify two image hyperedges that have become identical
        'outer: for i in 0..gm {
            for j in i + 1..gm {
                if h.e[x[i]] == h.e[x[j]] && x[i] != x[j] {
                    let drop = x[j];
                    let keep = x[i];
                    h.e.remove(drop);
                    let m = |k: usize| if k == drop { keep } else if k > drop { k - 1 } else { k };
                    x = x.iter().map(|k| m(*k)).collect();
                    break 'outer;
                }
            }
        }
    }
    // 4. random renumbering of the target
    let np = r.perm(h.w.len());
    let ep = r.perm(h.e.len());
    h = h.renumber(&np, &ep);
    w = w.iter().map(|v| np[*v]).collect();
    x = x.iter().map(|k| ep[*k]).collect();
    let mut c = Case { w_cod: h.w.len(), x_cod: h.e.len(), g, h, w, x, corruption: "none".into(), schedules: r.range(1, 3) };
    // 5. one corruption in half of the cases
    if r.chance(1, 2) {
        corrupt(r, &mut c);
    }
    c
}

fn corrupt(r: &mut Rng, c: &mut Case) {
    let kind = r.below(11);
    let done: Option<&str> = match kind {
        0 if c.g.n() > 0 => {
            let v = r.below(c.g.n());
            c.g.w[v] += 1;
            Some("relabel a source node")
        }
        1 if c.h.n() > 0 => {
            let v = r.below(c.h.n());
            c.h.w[v] += 1;
            Some("relabel a target node")
        }
        2 if c.h.m() > 0 => {
            let i = r.below(c.h.m());
            c.h.e[i].l += 1;
            Some("relabel a target hyperedge")
        }
        3 if c.g.m() > 0 => {
            // swap two entries of one source or target list
            let i = r.below(c.g.m());
            let list = if r.chance(1, 2) { &mut c.g.e[i].s } else { &mut c.g.e[i].t };
            if list.len() >= 2 {
                let k = list.len();
                list.swap(0, k - 1);
                Some("swap two entries of one incidence list of the source")
            } else {
                None
            }
        }
        4 if !c.w.is_empty() && c.w_cod > 0 => {
            let i = r.below(c.w.len());
            c.w[i] = r.below(c.w_cod);
            Some("retarget one node-map entry")
        }
        5 if !c.x.is_empty() && c.x_cod > 0 => {
            let i = r.below(c.x.len());
            c.x[i] = r.below(c.x_cod);
            Some("retarget one edge-map entry")
        }
        6 => {
            // mistype a codomain (table must stay below the claimed codomain)
            if r.chance(1, 2) {
                let need = c.w.iter().max().map_or(0, |m| m + 1);
                c.w_cod = if c.w_cod > need && r.chance(1, 2) { c.w_cod - 1 } else { c.w_cod + 1 };
                Some("mistype the node map's codomain")
            } else {
                let need = c.x.iter().max().map_or(0, |m| m + 1);
                c.x_cod = if c.x_cod > need && r.chance(1, 2) { c.x_cod - 1 } else { c.x_cod + 1 };
                Some("mistype the edge map's codomain")
            }
        }
        7 => {
            // mistype a domain
            if r.chance(1, 2) {
                if !c.w.is_empty() && r.chance(1, 2) {
                    c.w.pop();
                } else if c.w_cod > 0 {
                    c.w.push(r.below(c.w_cod));
                } else {
                    return;
                }
                Some("mistype the node map's domain")
            } else {
                if !c.x.is_empty() && r.chance(1, 2) {
                    c.x.pop();
                } else if c.x_cod > 0 {
                    c.x.push(r.below(c.x_cod));
                } else {
                    return;
                }
                Some("mistype the edge map's domain")
            }
        }
        8 if c.h.m() > 0 => {
            // change one incidence entry of a target hyperedge
            let i = r.below(c.h.m());
            let n = c.h.n();
            let list = if r.chance(1, 2) { &mut c.h.e[i].s } else { &mut c.h.e[i].t };
            if !list.is_empty() && n > 0 {
                let k = r.below(list.len());
                list[k] = r.below(n);
                Some("retarget one incidence entry of the target")
            } else {
                None
            }
        }
        9 | 10 if c.g.m() >= 2 => {
            // move one incidence entry across the boundary between two consecutive hyperedges of the
            // source: the concatenated incidence stays the same, the arities change
            let i = r.below(c.g.m() - 1);
            let src = r.chance(1, 2);
            let fwd = r.chance(1, 2);
            let (a, b) = c.g.e.split_at_mut(i + 1);
            let (la, lb) = if src { (&mut a[i].s, &mut b[0].s) } else { (&mut a[i].t, &mut b[0].t) };
            if fwd && !la.is_empty() {
                let v = la.pop().unwrap();
                lb.insert(0, v);
                Some("move an incidence entry to the next hyperedge of the source (cut point shifted)")
            } else if !fwd && !lb.is_empty() {
                let v = lb.remove(0);
                la.push(v);
                Some("move an incidence entry to the previous hyperedge of the source (cut point shifted)")
            } else {
                None
            }
        }
        _ => None,
    };
    if let Some(d) = done {
        c.corruption = d.to_string();
    }
}

impl Check for C18 {
    type Case = Case;
    const ID: &'static str = "C18";
    fn runs(tier: Tier) -> u64 {
        crate::runner::scaled(2000000, tier)
    }
    fn generate(r: &mut Rng, tier: Tier) -> Case {
        let big = tier == Tier::Thorough && r.chance(1, 3);
        gen_case(r, big)
    }
    fn execute(c: &Case, ex: &mut Exec) -> Result<(), Violation> {
        ex.workload_fp = mix(mix(c.g.fingerprint(), c.h.fingerprint()), c.w.iter().chain(c.x.iter()).fold((c.w_cod * 131 + c.x_cod) as u64, |a, v| mix(a, *v as u64)));
        ex.nontrivial = c.h.n() >= 1;
        ex.probe_if(c.h.n() >= 64 || c.h.m() >= 64, "size_64_or_more");
        ex.probe_if(c.h.n() >= 256 || c.h.m() >= 256, "size_256_or_more");
        let budget = launch_budget(&c.h) + launch_budget(&c.g);
        let valid = !failing(c).iter().any(|f| *f);
        ex.probe_if(c.corruption != "none", "corrupted_case");
        ex.probe_if(valid && c.w.is_empty() && c.x.is_empty(), "empty_subgraph");
        ex.probe_if(valid && (0..c.h.n()).any(|v| c.h.e.iter().all(|e| !e.s.contains(&v) && !e.t.contains(&v))), "target_node_untouched_by_edges");
        ex.probe_if(valid && { let r = reach_plus(&node_successors(&c.h)); (0..c.h.n()).any(|v| r[v][v]) }, "target_has_cycle");
        ex.probe_if(c.w_cod != c.h.n() || c.x_cod != c.h.m() || c.w.len() != c.g.n() || c.x.len() != c.g.m(), "mistyped_map");

        ex.seg_control();
        let o = ex.lib_budget("C18:arrow", budget, || B::<SimKind>::c18_observe(c))?;
        judge(ex, c, "sim/control", &o)?;
        ex.seg_vec();
        let o = ex.lib_budget("C18:arrow", budget, || B::<VecKind>::c18_observe(c))?;
        judge(ex, c, "vec", &o)?;
        for _ in 0..c.schedules {
            let pol = ex.seg_perturbed();
            let o = ex.lib_budget("C18:arrow", budget, || B::<SimKind>::c18_observe(c))?;
            let name = ex.cfg_name(&pol);
            judge(ex, c, &name, &o)?;
        }
        Ok(())
    }
    fn shrink(c: &Case) -> Vec<Case> {
        let mut out = vec![];
        if c.schedules > 1 {
            out.push(Case { schedules: 1, ..c.clone() });
        }
        // drop a target hyperedge outside the image
        for j in 0..c.h.m() {
            if !c.x.contains(&j) && c.x_cod == c.h.m() {
                let mut d = c.clone();
                d.h.e.remove(j);
                d.x = d.x.iter().map(|k| if *k > j { k - 1 } else { *k }).collect();
                d.x_cod -= 1;
                out.push(d);
            }
        }
        // drop a target node outside the image and untouched by hyperedges
        for v in 0..c.h.n() {
            let used = c.w.contains(&v) || c.h.e.iter().any(|e| e.s.contains(&v) || e.t.contains(&v));
            if !used && c.w_cod == c.h.n() {
                let mut d = c.clone();
                d.h.w.remove(v);
                let m = |u: usize| if u > v { u - 1 } else { u };
                for e in d.h.e.iter_mut() {
                    e.s = e.s.iter().map(|u| m(*u)).collect();
                    e.t = e.t.iter().map(|u| m(*u)).collect();
                }
                d.w = d.w.iter().map(|u| m(*u)).collect();
                d.w_cod -= 1;
                out.push(d);
            }
        }
        // drop a source hyperedge together with its map entry
        if c.x.len() == c.g.m() {
            for i in 0..c.g.m() {
                let mut d = c.clone();
                d.g.e.remove(i);
                d.x.remove(i);
                out.push(d);
            }
        }
        // shorten incidence lists of target hyperedges outside the image
        for j in 0..c.h.m() {
            if c.x.contains(&j) {
                continue;
            }
            for k in 0..c.h.e[j].s.len() {
                let mut d = c.clone();
                d.h.e[j].s.remove(k);
                out.push(d);
            }
            for k in 0..c.h.e[j].t.len() {
                let mut d = c.clone();
                d.h.e[j].t.remove(k);
                out.push(d);
            }
        }
        out
    }
    fn rule() -> &'static str {
        "Each run builds a valid morphism by construction (a hypergraph G of 0-5 nodes and 0-3 hyperedges included into G + extra nodes + extra hyperedges over all nodes, optional identification of two equally labelled target nodes and of two image hyperedges that became identical, random renumbering of the target) and, in half of the runs, applies exactly one corruption: relabel a source/target node or target hyperedge, swap two entries of one incidence list, retarget one node-map / edge-map / target incidence entry, mistype a map's codomain or domain. HypergraphArrow::new, is_monomorphism and is_convex_subgraph run on sim/control, vec and 1-3 perturbed schedules. Oracle: accepted iff labels and ordered incidence are preserved (brute force); a rejection must name a family (W, X, S, T) that really fails; mono iff both maps injective; convex iff mono and no outside hyperedge e with an image node reaching a source of e and a target of e reaching an image node (reflexive-transitive closure). Non-trivial iff the target has a node; distinct = distinct (case fingerprint, device decision fingerprint)."
    }
    fn assumptions() -> Vec<&'static str> {
        vec![
            "a mistyped map counts as failing every family it feeds (W or X, and S and T)",
            "'between two nodes of the image' is read as any ordered pair (u, v), u = v allowed, path length >= 1",
            "which failing condition is named first is free",
        ]
    }
    fn required_probes() -> Vec<&'static str> {
        vec!["accepted", "rejected", "convex", "not_convex", "accepted_non_mono", "empty_subgraph", "target_node_untouched_by_edges", "target_has_cycle", "mistyped_map", "corrupted_case"]
    }
    fn components() -> serde_json::Value {
        components_s1()
    }
}
