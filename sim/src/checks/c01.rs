//! C01 — sequential composition is exactly the gluing (pushout) of the two diagrams.

use super::{components_s1, expect_iso};
use crate::dev::{Dev, B};
use crate::dev_impl;
use crate::gen;
use crate::plain::{shrink_plain, Plain};
use crate::rng::Rng;
use crate::runner::{viol, Check, Exec, Tier, Violation};
use crate::simkind::SimKind;
use open_hypergraphs::array::vec::VecKind;
use open_hypergraphs::category::Arrow;
use serde::{Deserialize, Serialize};

#[derive(Serialize, Deserialize, Clone, Debug)]
pub struct Case {
    pub f: Plain,
    pub g: Plain,
    /// number of perturbed schedules to run this pair under
    pub schedules: usize,
    /// use the `>>` operator instead of `compose`
    pub sugar: bool,
}

pub struct C01;

dev_impl! {
    /// compose on device K; returns the plain form of the result (deep_wf checked) or None
    pub fn c01_compose(f: &Plain, g: &Plain, sugar: bool) -> Option<Result<Plain, String>> {
        let df = Self::to_dev(f);
        let dg = Self::to_dev(g);
        let r = if sugar { &df >> &dg } else { df.compose(&dg) };
        r.map(|r| Self::from_dev(&r))
    }
}

fn one_config<K: Dev>(ex: &mut Exec, c: &Case, want: &Option<Plain>, cfg: &str, got: Result<Option<Result<Plain, String>>, Violation>) -> Result<Option<Plain>, Violation> {
    let _ = std::marker::PhantomData::<K>;
    let got = got?;
    match (want, got) {
        (None, None) => {
            ex.probe("mismatch_rejected");
            Ok(None)
        }
        (None, Some(_)) => viol("C01:compose:accepted-mismatch", format!("[{}] types differ ({:?} vs {:?}) but compose returned a diagram", cfg, c.f.tgt_type(), c.g.src_type())),
        (Some(_), None) => viol("C01:compose:rejected-match", format!("[{}] target type of f equals source type of g ({:?}) but compose returned None", cfg, c.f.tgt_type())),
        (Some(_), Some(Err(e))) => viol("C01:compose:ill-formed", format!("[{}] {}", cfg, e)),
        (Some(w), Some(Ok(p))) => {
            expect_iso(ex, &p, w, "C01:compose:not-the-gluing", cfg)?;
            Ok(Some(p))
        }
    }
}

impl Check for C01 {
    type Case = Case;
    const ID: &'static str = "C01";

    fn runs(tier: Tier) -> u64 {
        crate::runner::scaled(1500000, tier)
    }

    fn generate(r: &mut Rng, tier: Tier) -> Case {
        let c = gen::draw_cfg(r, tier);
        let (f, g) = gen::gen_pair(r, &c);
        let (f, g) = if r.chance(1, 6) { gen::make_mismatch(r, &f, &g).unwrap_or((f, g)) } else { (f, g) };
        Case { f, g, schedules: r.range(1, 4), sugar: r.chance(1, 3) }
    }

    fn execute(c: &Case, ex: &mut Exec) -> Result<(), Violation> {
        let (f, g) = (&c.f, &c.g);
        let want = f.glue(g);
        ex.workload_fp = crate::rng::mix(f.fingerprint(), g.fingerprint());
        ex.probe_if(f.n() >= 64 || f.m() >= 64 || f.s.len() >= 64 || f.t.len() >= 64, "size_64_or_more");
        ex.probe_if(f.n() >= 256 || f.m() >= 256 || f.s.len() >= 256 || f.t.len() >= 256, "size_256_or_more");
        let identifications = f.t.len();
        ex.nontrivial = want.is_some() && (f.n() + g.n() > 0) && (identifications > 0 || f.m() + g.m() > 0);
        // probes on the workload
        if let Some(w) = &want {
            ex.probe_if(f.n() + g.n() >= w.n() + 2 && identifications >= 2, "merged_two_or_more_pairs");
            ex.probe_if(has_class_of_three(f, g), "class_of_three_or_more");
            ex.probe_if(f.t.is_empty(), "empty_boundary");
            ex.probe_if(f.n() + g.n() == 0, "both_empty");
            ex.probe_if(f.e.iter().chain(g.e.iter()).any(|e| e.s.is_empty() || e.t.is_empty()), "zero_arity_edge");
            ex.probe_if(has_dup(&f.t) || has_dup(&g.s), "boundary_node_repeated");
            ex.probe_if(f.s.iter().any(|x| f.t.contains(x)) || g.s.iter().any(|x| g.t.contains(x)), "node_shared_between_interfaces");
            ex.probe_if(f.e.iter().chain(g.e.iter()).any(|e| has_dup(&e.s) || has_dup(&e.t)), "node_repeated_in_edge");
        }

        // (b) control: simulated device, every decision VecLike
        ex.seg_control();
        let r = ex.lib("C01:compose", || B::<SimKind>::c01_compose(f, g, c.sugar));
        let control = one_config::<SimKind>(ex, c, &want, "sim/control", r)?;
        // (a) the shipped backend
        ex.seg_vec();
        let r = ex.lib("C01:compose", || B::<VecKind>::c01_compose(f, g, c.sugar));
        let vec = one_config::<VecKind>(ex, c, &want, "vec", r)?;
        ex.probe_if(control == vec && vec.is_some(), "control_equals_vec_data");
        // (c) perturbed schedules
        for _ in 0..c.schedules {
            let pol = ex.seg_perturbed();
            let r = ex.lib("C01:compose", || B::<SimKind>::c01_compose(f, g, c.sugar));
            let name = ex.cfg_name(&pol);
            let p = one_config::<SimKind>(ex, c, &want, &name, r)?;
            ex.probe_if(p.is_some() && p != vec, "raw_data_differs_from_vec");
        }
        Ok(())
    }

    fn shrink(c: &Case) -> Vec<Case> {
        let mut out = vec![];
        if c.schedules > 1 {
            out.push(Case { schedules: 1, ..c.clone() });
        }
        if c.sugar {
            out.push(Case { sugar: false, ..c.clone() });
        }
        for f in shrink_plain(&c.f) {
            out.push(Case { f, ..c.clone() });
        }
        for g in shrink_plain(&c.g) {
            out.push(Case { g, ..c.clone() });
        }
        out
    }

    fn stress(tier: Tier) -> Vec<Case> {
        // a boundary of ~2n wires whose identifications form one long chain: everything collapses
        let n = if tier == Tier::Thorough { 400_000 } else { 150_000 };
        let chain = |rev: bool| {
            let mut t = vec![0];
            for i in 1..n - 1 {
                t.push(i);
                t.push(i);
            }
            t.push(n - 1);
            let mut s = vec![];
            for j in 0..n - 1 {
                s.push(j);
                s.push(j);
            }
            if rev {
                t.reverse();
                s.reverse();
            }
            Case { f: Plain { w: vec![0; n], e: vec![], s: vec![0], t }, g: Plain { w: vec![0; n], e: vec![], s, t: vec![n - 1] }, schedules: 1, sugar: false }
        };
        vec![chain(false), chain(true)]
    }
    fn rule() -> &'static str {
        "Each run draws generator parameters (swarm), then a pair (f, g) of well-formed diagrams whose boundary types match (5/6) or were made to differ in one label / in length / by emptying one side (1/6). The right operand is, at a low rate, a collapsing spider or an identity-looking endo-spider (equal, non-injective legs); either operand may be one. At a low rate the diagrams are unusually large (up to ~50 nodes), and rarer still past the 64 / 128 / 256 thresholds (70-300 nodes, interfaces up to 270 wires; probes size_64_or_more, size_256_or_more). The pair is composed on the simulated device with all decisions VecLike (control), on VecKind, and under 1-4 perturbed device schedules. A run is non-trivial iff the types match, the pair is not two empty diagrams and there is at least one identification or hyperedge; distinct = distinct (fingerprint of (f,g), fingerprint of all device decisions taken) pairs, counted in a hash set. Two stress cases (boundaries of 3*10^5 / 8*10^5 wires whose identifications form one chain) run in child processes on a 2 MiB stack."
    }
    fn assumptions() -> Vec<&'static str> {
        vec![
            "the reference gluing (union-find on the plain model) and the isomorphism procedure in the harness are correct (selftest cross-checks iso against brute force on small inputs)",
            "SimKind explores the outcome sets of the four documented open choices, not arbitrary conforming backends",
            "sampling, not enumeration: sizes <= ~10 nodes, <= 7 hyperedges, arity <= 4",
        ]
    }
    fn required_probes() -> Vec<&'static str> {
        vec!["mismatch_rejected", "class_of_three_or_more", "empty_boundary", "zero_arity_edge", "boundary_node_repeated", "node_repeated_in_edge", "raw_data_differs_from_vec", "node_shared_between_interfaces"]
    }
    fn components() -> serde_json::Value {
        components_s1()
    }
}

fn has_dup(v: &[usize]) -> bool {
    (0..v.len()).any(|i| v[..i].contains(&v[i]))
}

fn has_class_of_three(f: &Plain, g: &Plain) -> bool {
    let nf = f.n();
    let mut uf = crate::plain::UnionFind::new(nf + g.n());
    for (a, b) in f.t.iter().zip(g.s.iter()) {
        uf.union(*a, nf + *b);
    }
    let mut cnt = vec![0; nf + g.n()];
    for v in 0..nf + g.n() {
        let r = uf.find(v);
        cnt[r] += 1;
    }
    cnt.iter().any(|c| *c >= 3)
}
