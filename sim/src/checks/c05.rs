//! C05 — every operation returns a well-formed, correctly typed diagram; checked constructors
//! accept exactly the documented data.
//!
//! (1) The pool machine: a pool of diagrams, repeatedly hit by random public operations, every
//! result re-checked by the deep well-formedness checker, typed as promised, and refined against
//! its plain reference twin (isomorphism) operation by operation, under device schedules.
//! (2) Data-corruption faults at the validation boundary: raw parts of a well-formed value with
//! at most one datum flipped, handed to the checked constructors.

use super::func::{FSpec, SpecFunctor};
use super::{components_s1, expect_iso};
use crate::dev::{B, OH};
use crate::dev_impl;
use crate::gen;
use crate::plain::{shrink_plain, Plain, L};
use crate::rng::{Fp, Rng};
use crate::runner::{viol, Check, Exec, Tier, Violation};
use crate::simkind::SimKind;
use open_hypergraphs::array::vec::VecKind;
use open_hypergraphs::category::{Arrow, Monoidal, Spider, SymmetricMonoidal};
use open_hypergraphs::finite_function::FiniteFunction;
use open_hypergraphs::indexed_coproduct::IndexedCoproduct;
use open_hypergraphs::operations::Operations;
use open_hypergraphs::semifinite::SemifiniteFunction;
use open_hypergraphs::strict::functor::Functor;
use open_hypergraphs::strict::hypergraph::Hypergraph;
use open_hypergraphs::strict::open_hypergraph::OpenHypergraph;
use serde::{Deserialize, Serialize};

#[derive(Serialize, Deserialize, Clone, Debug, PartialEq)]
pub enum PoolOp {
    /// compose two pool members (mostly a type mismatch: must be refused)
    Compose { i: usize, j: usize },
    /// (p_i ⊗ id) ; (id ⊗ p_j): always composable
    Sandwich { i: usize, j: usize },
    /// p_i ; p_i†: always composable, merges many nodes
    ComposeDagger { i: usize },
    Tensor { i: usize, j: usize },
    Dagger { i: usize },
    /// identity on the target type of p_i
    IdentityOn { i: usize },
    /// symmetry on (target type of p_i, source type of p_j), pre-composed with p_i ⊗ dagger(p_j)
    TwistAfter { i: usize, j: usize },
    /// spider over the node labels of p_i with the given legs (entries taken modulo the node count)
    SpiderOn { i: usize, s: Vec<usize>, t: Vec<usize> },
    HalfSpiderOn { i: usize, s: Vec<usize> },
    Singleton { l: L, a: Vec<L>, b: Vec<L> },
    TensorOperations { ops: Vec<(L, Vec<L>, Vec<L>)> },
    /// apply the run's functor
    Functor { i: usize },
    /// apply the run's optic (optionally adapted)
    Optic { i: usize, adapted: bool },
    /// strict -> lax -> strict (Vec device only; a no-op elsewhere)
    RoundTrip { i: usize },
}

/// raw parts for the checked constructors: a well-formed base with at most one datum flipped
#[derive(Serialize, Deserialize, Clone, Debug, Default)]
pub struct Raw {
    pub ff_table: Vec<usize>,
    pub ff_target: usize,
    /// IndexedCoproduct::new: size map (table, codomain) and number of values
    pub ic_sizes: Vec<usize>,
    pub ic_sizes_cod: usize,
    pub ic_values: usize,
    /// from_semifinite: sizes and number of values
    pub sf_sizes: Vec<usize>,
    pub sf_values: usize,
    /// Operations::new: number of labels, of source segments, of target segments
    pub ops_x: usize,
    pub ops_a: usize,
    pub ops_b: usize,
    /// Hypergraph::new / OpenHypergraph::new: a plain diagram plus deviations
    pub base: Plain,
    pub h_s_segments: i32,
    pub h_t_segments: i32,
    pub h_s_cod: i32,
    pub h_t_cod: i32,
    pub h_w_len: i32,
    pub h_x_len: i32,
    pub o_s_cod: i32,
    pub o_t_cod: i32,
    pub what: String,
}

#[derive(Serialize, Deserialize, Clone, Debug)]
pub struct Case {
    pub seeds: Vec<Plain>,
    pub ops: Vec<PoolOp>,
    pub spec: FSpec,
    #[serde(default)]
    pub ospec: Option<super::func::OSpec>,
    pub raw: Raw,
    pub schedules: usize,
}

pub struct C05;

const MAX_NODES: usize = 28;

/// one pool step as seen by the oracle
pub struct StepObs {
    pub step: usize,
    pub what: String,
    /// source / target type as reported through the `Arrow` trait (what generic code sees)
    pub trait_types: Option<(Vec<L>, Vec<L>)>,
    /// None = the operation reported failure (compose on mismatching types, rejected spider)
    pub got: Option<Result<Plain, String>>,
    pub want: Option<Plain>,
}

fn fit(v: &[usize], n: usize) -> Vec<usize> {
    if n == 0 {
        vec![]
    } else {
        v.iter().map(|x| x % n).collect()
    }
}

dev_impl! {
    /// run the pool machine on device K; the reference twins are computed alongside
    pub fn c05_pool(c: &Case) -> Vec<StepObs> {
        let mut pool: Vec<(OH<K>, Plain)> = c.seeds.iter().map(|p| (Self::to_dev(p), p.clone())).collect();
        let mut out = vec![];
        if pool.is_empty() {
            return out;
        }
        let fu = SpecFunctor { spec: &c.spec, native: c.ops.len() % 2 == 1 };
        for (step, op) in c.ops.iter().enumerate() {
            let n = pool.len();
            let pick = |i: &usize| &pool[*i % n];
            let (got, want): (Option<OH<K>>, Option<Plain>) = match op {
                PoolOp::Compose { i, j } => {
                    let (a, b) = (pick(i), pick(j));
                    (a.0.compose(&b.0), a.1.glue(&b.1))
                }
                PoolOp::Sandwich { i, j } => {
                    let (a, b) = (pick(i), pick(j));
                    let id_l = OH::<K>::identity(Self::sf(b.1.src_type()));
                    let id_r = OH::<K>::identity(Self::sf(a.1.tgt_type()));
                    let lhs = a.0.tensor(&id_l);
                    let rhs = id_r.tensor(&b.0);
                    let want = a.1.tensor(&Plain::identity(&b.1.src_type())).glue(&Plain::identity(&a.1.tgt_type()).tensor(&b.1));
                    (lhs.compose(&rhs), want)
                }
                PoolOp::ComposeDagger { i } => {
                    let a = pick(i);
                    (a.0.compose(&a.0.dagger()), a.1.glue(&a.1.dagger()))
                }
                PoolOp::Tensor { i, j } => {
                    let (a, b) = (pick(i), pick(j));
                    // the `|` operator in every other step
                    (Some(if step % 2 == 0 { a.0.tensor(&b.0) } else { &a.0 | &b.0 }), Some(a.1.tensor(&b.1)))
                }
                PoolOp::Dagger { i } => {
                    let a = pick(i);
                    (Some(a.0.dagger()), Some(a.1.dagger()))
                }
                PoolOp::IdentityOn { i } => {
                    let ty = pick(i).1.tgt_type();
                    if step % 5 == 4 {
                        // the identity on the monoidal unit is the empty diagram
                        (Some(<OH<K> as Arrow>::identity(<OH<K> as Monoidal>::unit())), Some(Plain::identity(&[])))
                    } else {
                        let got = if step % 2 == 0 { OH::<K>::identity(Self::sf(ty.clone())) } else { <OH<K> as Arrow>::identity(Self::sf(ty.clone())) };
                        (Some(got), Some(Plain::identity(&ty)))
                    }
                }
                PoolOp::TwistAfter { i, j } => {
                    let (a, b) = (pick(i), pick(j));
                    let (ta, tb) = (a.1.tgt_type(), b.1.src_type());
                    let tw = <OH<K> as SymmetricMonoidal>::twist(Self::sf(ta.clone()), Self::sf(tb.clone()));
                    let lhs = a.0.tensor(&b.0.dagger());
                    (lhs.compose(&tw), a.1.tensor(&b.1.dagger()).glue(&Plain::twist(&ta, &tb)))
                }
                PoolOp::SpiderOn { i, s, t } => {
                    let w = pick(i).1.w.clone();
                    let (s, t) = (fit(s, w.len()), fit(t, w.len()));
                    let got = if step % 2 == 0 {
                        <OH<K> as Spider<K>>::spider(Self::ff(s.clone(), w.len()), Self::ff(t.clone(), w.len()), Self::sf(w.clone()))
                    } else {
                        OH::<K>::spider(Self::ff(s.clone(), w.len()), Self::ff(t.clone(), w.len()), Self::sf(w.clone()))
                    };
                    (got, Plain::spider(&s, &t, &w))
                }
                PoolOp::HalfSpiderOn { i, s } => {
                    let w = pick(i).1.w.clone();
                    let s = fit(s, w.len());
                    let got = <OH<K> as Spider<K>>::half_spider(Self::ff(s.clone(), w.len()), Self::sf(w.clone()));
                    let t: Vec<usize> = (0..w.len()).collect();
                    (got, Plain::spider(&s, &t, &w))
                }
                PoolOp::Singleton { l, a, b } => (Some(OH::<K>::singleton(*l, Self::sf(a.clone()), Self::sf(b.clone()))), Some(Plain::singleton(*l, a, b))),
                PoolOp::TensorOperations { ops } => {
                    let x = Self::sf(ops.iter().map(|o| o.0).collect());
                    let a = Self::seg_labels(&ops.iter().map(|o| o.1.clone()).collect::<Vec<_>>());
                    let b = Self::seg_labels(&ops.iter().map(|o| o.2.clone()).collect::<Vec<_>>());
                    let batch = Operations::new(x, a, b).expect("harness: operation batch with one type per label");
                    let want = Plain::tensor_all(&ops.iter().map(|o| Plain::singleton(o.0, &o.1, &o.2)).collect::<Vec<_>>());
                    (Some(OH::<K>::tensor_operations(batch)), Some(want))
                }
                PoolOp::Functor { i } => {
                    let a = pick(i);
                    if a.1.w.len() > 8 || a.1.e.len() > 5 {
                        continue; // images grow by a factor of up to 3
                    }
                    let spec = &c.spec;
                    let want = a.1.substitute(&|l| spec.ob_of(l), &|l, x, y| spec.image(l, x, y));
                    (Some(<SpecFunctor as Functor<K, L, L, L, L>>::map_arrow(&fu, &a.0)), Some(want))
                }
                PoolOp::Optic { i, adapted } => {
                    let a = pick(i);
                    let spec = match &c.ospec {
                        Some(s) if a.1.w.len() <= 6 && a.1.e.len() <= 3 => s,
                        _ => continue,
                    };
                    let img = super::c14::optic_reference(spec, &a.1);
                    let want = if *adapted { super::c14::adapted_reference(spec, &img, &a.1.src_type(), &a.1.tgt_type()) } else { img };
                    (Some(Self::c14_apply(spec, &a.0, *adapted)), Some(want))
                }
                PoolOp::RoundTrip { i } => {
                    let a = pick(i);
                    (Some(Self::c05_roundtrip(&a.0)), Some(a.1.clone()))
                }
            };
            let keep = want.as_ref().map_or(false, |w| w.w.len() <= MAX_NODES && w.e.len() <= MAX_NODES);
            let got_plain = got.as_ref().map(|g| Self::from_dev(g));
            let ok = matches!(got_plain, Some(Ok(_)));
            let trait_types = if ok { got.as_ref().map(|g| (Self::un_sf(&<OH<K> as Arrow>::source(g)), Self::un_sf(&<OH<K> as Arrow>::target(g)))) } else { None };
            out.push(StepObs { step, what: format!("{:?}", op), trait_types, got: got_plain, want: want.clone() });
            if let (Some(g), Some(w), true, true) = (got, want, keep, ok) {
                // results go back into the pool (replace an old member when the pool is full)
                if pool.len() >= 6 {
                    pool[step % 6] = (g, w);
                } else {
                    pool.push((g, w));
                }
            }
        }
        out
    }

    // (the lax twin of the pool machine is `lax_pool` below: Vec device only)

    /// conversion through the lax representation exists for the Vec device only
    fn c05_roundtrip(f: &OH<K>) -> OH<K> {
        let p = Self::from_dev(f).expect("pool members are well-formed");
        if K::IS_SIM {
            return f.clone();
        }
        let v = B::<VecKind>::to_dev(&p);
        let back = open_hypergraphs::lax::OpenHypergraph::from_strict(v).to_strict();
        Self::to_dev(&B::<VecKind>::from_dev(&back).expect("lax round trip ill-formed"))
    }

    /// hand the raw parts to the checked constructors; report acceptance
    pub fn c05_constructors(r: &Raw) -> Vec<(&'static str, bool)> {
        let mut out = vec![];
        out.push(("FiniteFunction::new", FiniteFunction::<K>::new(K::ix(r.ff_table.clone()), r.ff_target).is_some()));
        // IndexedCoproduct::new with a size map of the claimed codomain (itself a legal finite function)
        if let Some(sizes) = FiniteFunction::<K>::new(K::ix(r.ic_sizes.clone()), r.ic_sizes_cod) {
            let values = SemifiniteFunction::<K, L>(K::arr(vec![0 as L; r.ic_values]));
            out.push(("IndexedCoproduct::new", IndexedCoproduct::new(sizes, values).is_some()));
        }
        let values = SemifiniteFunction::<K, L>(K::arr(vec![0 as L; r.sf_values]));
        out.push(("IndexedCoproduct::from_semifinite", IndexedCoproduct::from_semifinite(SemifiniteFunction(K::arr(r.sf_sizes.clone())), values).is_some()));
        let x = SemifiniteFunction::<K, L>(K::arr(vec![0 as L; r.ops_x]));
        let a = Self::seg_labels(&vec![vec![]; r.ops_a]);
        let b = Self::seg_labels(&vec![vec![]; r.ops_b]);
        out.push(("Operations::new", Operations::new(x, a, b).is_some()));
        // hypergraph parts from the base diagram, deviated
        let p = &r.base;
        let n = p.w.len();
        let dev = |k: usize, d: i32| (k as i64 + d as i64).max(0) as usize;
        let mk = |lists: Vec<Vec<usize>>, seg_delta: i32, cod: usize| {
            let mut lists = lists;
            if seg_delta > 0 {
                lists.push(vec![]);
            } else if seg_delta < 0 {
                lists.pop();
            }
            Self::seg(&lists, cod)
        };
        let max_ref = p.e.iter().flat_map(|e| e.s.iter().chain(e.t.iter())).max().map_or(0, |m| m + 1);
        let s_cod = dev(n, r.h_s_cod).max(max_ref);
        let t_cod = dev(n, r.h_t_cod).max(max_ref);
        let s = mk(p.e.iter().map(|e| e.s.clone()).collect(), r.h_s_segments, s_cod);
        let t = mk(p.e.iter().map(|e| e.t.clone()).collect(), r.h_t_segments, t_cod);
        let w = Self::sf({ let mut w = p.w.clone(); w.resize(dev(n, r.h_w_len), 0); w });
        let x = Self::sf({ let mut x: Vec<L> = p.e.iter().map(|e| e.l).collect(); x.resize(dev(p.e.len(), r.h_x_len), 0); x });
        let h = Hypergraph::new(s, t, w, x);
        out.push(("Hypergraph::new", h.is_ok()));
        // open hypergraph: legs with deviated codomains over the *valid* hypergraph
        let max_if = p.s.iter().chain(p.t.iter()).max().map_or(0, |m| m + 1);
        let hv = Self::to_hg(p);
        let so = Self::ff(p.s.clone(), dev(n, r.o_s_cod).max(max_if));
        let to = Self::ff(p.t.clone(), dev(n, r.o_t_cod).max(max_if));
        out.push(("OpenHypergraph::new", OpenHypergraph::new(so, to, hv).is_ok()));
        out
    }
}

/// The same pool machine through the *lax* public API (hard-wired to the Vec device): every result,
/// strictified, must be well-formed, typed as promised and isomorphic to its plain reference twin.
/// Operands keep their pending unifications (nothing is quotiented in between).
pub fn lax_pool(c: &Case) -> Vec<StepObs> {
    use open_hypergraphs::lax::OpenHypergraph as Lax;
    type LOH = Lax<L, L>;
    let mut pool: Vec<(LOH, Plain)> = c.seeds.iter().map(|p| (LOH::from_strict(B::<VecKind>::to_dev(p)), p.clone())).collect();
    let mut out = vec![];
    if pool.is_empty() {
        return out;
    }
    let ff = |t: Vec<usize>, n: usize| FiniteFunction::<VecKind> { table: open_hypergraphs::array::vec::VecArray(t), target: n };
    for (step, op) in c.ops.iter().enumerate() {
        let n = pool.len();
        let pick = |i: &usize| &pool[*i % n];
        let (got, want): (Option<LOH>, Option<Plain>) = match op {
            PoolOp::Compose { i, j } => {
                let (a, b) = (pick(i), pick(j));
                let want = a.1.glue(&b.1);
                // the unchecked form is only comparable when the types match (it is defined iff the arities do)
                let got = match step % 3 {
                    0 => a.0.compose(&b.0),
                    1 => &a.0 >> &b.0,
                    _ if want.is_some() => a.0.lax_compose(&b.0),
                    _ => a.0.compose(&b.0),
                };
                (got, want)
            }
            PoolOp::Sandwich { i, j } => {
                let (a, b) = (pick(i), pick(j));
                let lhs = a.0.tensor(&LOH::identity(b.1.src_type()));
                let rhs = LOH::identity(a.1.tgt_type()).tensor(&b.0);
                (lhs.compose(&rhs), a.1.tensor(&Plain::identity(&b.1.src_type())).glue(&Plain::identity(&a.1.tgt_type()).tensor(&b.1)))
            }
            PoolOp::ComposeDagger { i } => {
                let a = pick(i);
                (a.0.compose(&a.0.dagger()), a.1.glue(&a.1.dagger()))
            }
            PoolOp::Tensor { i, j } => {
                let (a, b) = (pick(i), pick(j));
                let t = match step % 5 {
                    0 => a.0.tensor(&b.0),
                    1 => &a.0 | &b.0,
                    // the trait-level method (shadowed by the inherent one in a method call)
                    2 => <LOH as Monoidal>::tensor(&a.0, &b.0),
                    3 => {
                        // append leaves the boundaries alone and reports where the operand's went
                        let mut x = a.0.clone();
                        let (s, t) = x.append(b.0.clone());
                        x.sources.extend(s);
                        x.targets.extend(t);
                        x
                    }
                    _ => {
                        let mut x = a.0.clone();
                        x.tensor_assign(b.0.clone());
                        x
                    }
                };
                (Some(t), Some(a.1.tensor(&b.1)))
            }
            PoolOp::Dagger { i } => {
                let a = pick(i);
                (Some(a.0.dagger()), Some(a.1.dagger()))
            }
            PoolOp::IdentityOn { i } => {
                let ty = pick(i).1.tgt_type();
                if step % 5 == 4 {
                    (Some(<LOH as Arrow>::identity(<LOH as Monoidal>::unit())), Some(Plain::identity(&[])))
                } else {
                    let got = if step % 2 == 0 { <LOH as Arrow>::identity(ty.clone()) } else { LOH::identity(ty.clone()) };
                    (Some(got), Some(Plain::identity(&ty)))
                }
            }
            PoolOp::TwistAfter { i, j } => {
                let (a, b) = (pick(i), pick(j));
                let (ta, tb) = (a.1.tgt_type(), b.1.src_type());
                let tw = <LOH as SymmetricMonoidal>::twist(ta.clone(), tb.clone());
                (a.0.tensor(&b.0.dagger()).compose(&tw), a.1.tensor(&b.1.dagger()).glue(&Plain::twist(&ta, &tb)))
            }
            PoolOp::SpiderOn { i, s, t } => {
                let w = pick(i).1.w.clone();
                let (s, t) = (fit(s, w.len()), fit(t, w.len()));
                let got = if step % 2 == 0 {
                    LOH::spider(ff(s.clone(), w.len()), ff(t.clone(), w.len()), w.clone())
                } else {
                    <LOH as Spider<VecKind>>::spider(ff(s.clone(), w.len()), ff(t.clone(), w.len()), w.clone())
                };
                (got, Plain::spider(&s, &t, &w))
            }
            PoolOp::HalfSpiderOn { i, s } => {
                let w = pick(i).1.w.clone();
                let s = fit(s, w.len());
                let t: Vec<usize> = (0..w.len()).collect();
                (<LOH as Spider<VecKind>>::half_spider(ff(s.clone(), w.len()), w.clone()), Plain::spider(&s, &t, &w))
            }
            PoolOp::Singleton { l, a, b } => (Some(LOH::singleton(*l, a.clone(), b.clone())), Some(Plain::singleton(*l, a, b))),
            PoolOp::TensorOperations { ops } => {
                // built imperatively: new_operation per entry, interfaces appended
                let mut f = LOH::empty();
                for (l, a, b) in ops {
                    let (_, (s, t)) = f.new_operation(*l, a.clone(), b.clone());
                    f.sources.extend(s);
                    f.targets.extend(t);
                }
                (Some(f), Some(Plain::tensor_all(&ops.iter().map(|o| Plain::singleton(o.0, &o.1, &o.2)).collect::<Vec<_>>())))
            }
            PoolOp::Optic { i, adapted } => {
                use open_hypergraphs::lax::optic::Optic as LaxOptic;
                let a = pick(i);
                let spec = match &c.ospec {
                    Some(s) if a.1.w.len() <= 6 && a.1.e.len() <= 3 => s,
                    _ => continue,
                };
                let o = super::c14::LaxGen { spec: spec.clone() };
                let img = super::c14::optic_reference(spec, &a.1);
                if *adapted {
                    (Some(o.map_adapted(a.0.clone())), Some(super::c14::adapted_reference(spec, &img, &a.1.src_type(), &a.1.tgt_type())))
                } else {
                    (Some(o.map_arrow(a.0.clone())), Some(img))
                }
            }
            PoolOp::Functor { .. } | PoolOp::RoundTrip { .. } => continue, // C12 / the strict pool cover these
        };
        let keep = want.as_ref().map_or(false, |w| w.w.len() <= MAX_NODES && w.e.len() <= MAX_NODES);
        let trait_types = got.as_ref().map(|g| (Arrow::source(g), Arrow::target(g)));
        #[allow(deprecated)]
        let got_plain = got.as_ref().map(|g| B::<VecKind>::from_dev(&if step % 2 == 0 { g.clone().to_strict() } else { g.clone().to_open_hypergraph() }));
        let ok = matches!(got_plain, Some(Ok(_)));
        out.push(StepObs { step, what: format!("lax {:?}", op), trait_types, got: got_plain, want: want.clone() });
        if let (Some(g), Some(w), true, true) = (got, want, keep, ok) {
            if pool.len() >= 6 {
                pool[step % 6] = (g, w);
            } else {
                pool.push((g, w));
            }
        }
    }
    out
}

/// documented acceptance conditions, evaluated on the raw parts
fn constructors_ref(r: &Raw) -> Vec<(&'static str, bool)> {
    let mut out = vec![];
    out.push(("FiniteFunction::new", r.ff_table.iter().all(|v| *v < r.ff_target)));
    if r.ic_sizes.iter().all(|v| *v < r.ic_sizes_cod) {
        let sum: usize = r.ic_sizes.iter().sum();
        out.push(("IndexedCoproduct::new", r.ic_sizes_cod == sum + 1 && sum == r.ic_values));
    }
    let true_sum = r.sf_sizes.iter().try_fold(0usize, |a, k| a.checked_add(*k));
    out.push(("IndexedCoproduct::from_semifinite", true_sum == Some(r.sf_values)));
    out.push(("Operations::new", r.ops_x == r.ops_a && r.ops_x == r.ops_b));
    let p = &r.base;
    let n = p.w.len() as i64;
    let m = p.e.len() as i64;
    let dev = |k: i64, d: i32| (k + d as i64).max(0);
    let max_ref = p.e.iter().flat_map(|e| e.s.iter().chain(e.t.iter())).max().map_or(0, |m| m + 1) as i64;
    let (w_len, x_len) = (dev(n, r.h_w_len), dev(m, r.h_x_len));
    let seg = |d: i32| if d > 0 { m + 1 } else if d < 0 { (m - 1).max(0) } else { m };
    let (s_cod, t_cod) = (dev(n, r.h_s_cod).max(max_ref), dev(n, r.h_t_cod).max(max_ref));
    out.push(("Hypergraph::new", seg(r.h_s_segments) == x_len && seg(r.h_t_segments) == x_len && s_cod == w_len && t_cod == w_len));
    let max_if = p.s.iter().chain(p.t.iter()).max().map_or(0, |m| m + 1) as i64;
    out.push(("OpenHypergraph::new", dev(n, r.o_s_cod).max(max_if) == n && dev(n, r.o_t_cod).max(max_if) == n));
    out
}

fn judge_pool(ex: &mut Exec, cfg: &str, obs: Vec<StepObs>) -> Result<(), Violation> {
    for o in obs {
        match (&o.got, &o.want) {
            (None, None) => ex.probe("failure_reported_as_promised"),
            (Some(_), None) => return viol("C05:pool:result-where-failure-was-promised", format!("[{}] step {} {}: returned a diagram although the operation is not defined on these arguments", cfg, o.step, o.what)),
            (None, Some(_)) => return viol("C05:pool:failure-where-result-was-promised", format!("[{}] step {} {}: reported failure on well-formed, well-typed arguments", cfg, o.step, o.what)),
            (Some(Err(e)), Some(_)) => return viol("C05:pool:ill-formed-result", format!("[{}] step {} {}: {}", cfg, o.step, o.what, e)),
            (Some(Ok(g)), Some(w)) => {
                if g.src_type() != w.src_type() || g.tgt_type() != w.tgt_type() {
                    return viol("C05:pool:wrong-type", format!("[{}] step {} {}: result has type {:?} -> {:?}, promised {:?} -> {:?}", cfg, o.step, o.what, g.src_type(), g.tgt_type(), w.src_type(), w.tgt_type()));
                }
                if let Some((s, t)) = &o.trait_types {
                    if *s != w.src_type() || *t != w.tgt_type() {
                        return viol("C05:pool:wrong-type-through-Arrow-trait", format!("[{}] step {} {}: Arrow::source / Arrow::target report {:?} -> {:?}, promised {:?} -> {:?}", cfg, o.step, o.what, s, t, w.src_type(), w.tgt_type()));
                    }
                }
                expect_iso(ex, g, w, "C05:pool:diverged-from-reference-twin", &format!("{} step {} {}", cfg, o.step, o.what))?;
                ex.probe("pool_results_checked");
                if o.step >= 10 {
                    ex.probe("pool_depth_ten_or_more");
                }
            }
        }
    }
    Ok(())
}

fn judge_constructors(ex: &mut Exec, r: &Raw, cfg: &str, got: Vec<(&'static str, bool)>) -> Result<(), Violation> {
    let want = constructors_ref(r);
    // pair by name: IndexedCoproduct::new is only exercised when its size map is itself a legal
    // finite function, so the two lists can differ in length when FiniteFunction::new misjudges
    let has = |l: &Vec<(&'static str, bool)>, n: &str| l.iter().any(|(k, _)| *k == n);
    if has(&got, "IndexedCoproduct::new") != has(&want, "IndexedCoproduct::new") {
        return viol(
            "C05:FiniteFunction::new:acceptance",
            format!("[{}] FiniteFunction::new {} the size table {:?} with claimed codomain {} although {}", cfg, if has(&got, "IndexedCoproduct::new") { "accepted" } else { "rejected" }, r.ic_sizes, r.ic_sizes_cod, if has(&want, "IndexedCoproduct::new") { "every entry is below it" } else { "an entry is not below it" }),
        );
    }
    for (name, g) in got.iter() {
        let w = match want.iter().find(|(k, _)| k == name) {
            Some((_, w)) => w,
            None => continue,
        };
        if g != w {
            return viol(&format!("C05:{}:acceptance", name), format!("[{}] {} {} the raw parts although the documented condition {} ({}): {:?}", cfg, name, if *g { "accepted" } else { "rejected" }, if *w { "holds" } else { "fails" }, r.what, r));
        }
        ex.probe(if *w { "constructor_accepted" } else { "constructor_rejected" });
    }
    Ok(())
}

fn gen_raw(r: &mut Rng, c: &gen::GenCfg) -> Raw {
    let mut raw = Raw::default();
    // valid bases
    let target = r.range(0, 6);
    raw.ff_target = target;
    raw.ff_table = if target == 0 { vec![] } else { (0..r.range(0, 6)).map(|_| r.below(target)).collect() };
    let sizes: Vec<usize> = (0..r.range(0, 5)).map(|_| r.below(4)).collect();
    let sum: usize = sizes.iter().sum();
    raw.ic_sizes = sizes.clone();
    raw.ic_sizes_cod = sum + 1;
    raw.ic_values = sum;
    raw.sf_sizes = sizes;
    raw.sf_values = sum;
    let k = r.range(0, 4);
    raw.ops_x = k;
    raw.ops_a = k;
    raw.ops_b = k;
    raw.base = gen::gen_plain(r, c, None);
    raw.what = "no datum flipped".into();
    let pm = |r: &mut Rng| if r.chance(1, 2) { 1 } else { -1 };
    // at most one flip per constructor family
    match r.below(17) {
        16 if raw.sf_sizes.len() >= 2 => {
            // two sizes whose *true* sum exceeds the value count by exactly 2^64: an acceptance test
            // computed with wrapping machine arithmetic sees the right sum
            let i = r.below(raw.sf_sizes.len());
            let j = (i + 1 + r.below(raw.sf_sizes.len() - 1)) % raw.sf_sizes.len();
            let (oi, oj) = (raw.sf_sizes[i], raw.sf_sizes[j]);
            raw.sf_sizes[j] = usize::MAX - 3;
            raw.sf_sizes[i] = oi + oj + 4;
            raw.what = "from_semifinite: two sizes whose true sum exceeds the value count by 2^64 (the machine sum wraps around to it)".into();
        }
        0 if !raw.ff_table.is_empty() => {
            let i = r.below(raw.ff_table.len());
            raw.ff_table[i] = raw.ff_target; // entry == target
            raw.what = "finite function: one table entry set to the codomain size".into();
        }
        1 if !raw.ff_table.is_empty() => {
            let i = r.below(raw.ff_table.len());
            raw.ff_table[i] = raw.ff_target + 1;
            raw.what = "finite function: one table entry set to codomain size + 1".into();
        }
        2 => {
            raw.ff_target = raw.ff_table.iter().max().map_or(0, |m| *m); // = max: just too small (or 0 for empty)
            raw.what = "finite function: codomain shrunk to the largest entry".into();
        }
        3 => {
            raw.ic_sizes_cod = (raw.ic_sizes_cod as i64 + pm(r) as i64).max(0) as usize;
            raw.what = "segmented array: size-map codomain off by one".into();
        }
        4 => {
            raw.ic_values = (raw.ic_values as i64 + pm(r) as i64).max(0) as usize;
            raw.what = "segmented array: one value more/less than the sizes add up to".into();
        }
        5 if !raw.sf_sizes.is_empty() => {
            let i = r.below(raw.sf_sizes.len());
            raw.sf_sizes[i] = (raw.sf_sizes[i] as i64 + pm(r) as i64).max(0) as usize;
            raw.what = "from_semifinite: one segment size off by one".into();
        }
        6 => {
            raw.sf_values = (raw.sf_values as i64 + pm(r) as i64).max(0) as usize;
            raw.what = "from_semifinite: one value more/less".into();
        }
        7 => {
            match r.below(3) {
                0 => raw.ops_x += 1,
                1 => raw.ops_a += 1,
                _ => raw.ops_b += 1,
            }
            raw.what = "operation batch: one count off by one".into();
        }
        8 => {
            raw.h_s_segments = pm(r);
            raw.what = "hypergraph: one source segment more/less".into();
        }
        9 => {
            raw.h_t_segments = pm(r);
            raw.what = "hypergraph: one target segment more/less".into();
        }
        10 => {
            if r.chance(1, 2) {
                raw.h_s_cod = pm(r);
            } else {
                raw.h_t_cod = pm(r);
            }
            raw.what = "hypergraph: incidence codomain off by one".into();
        }
        11 => {
            if r.chance(1, 2) {
                raw.h_w_len = pm(r);
            } else {
                raw.h_x_len = pm(r);
            }
            raw.what = "hypergraph: one node / hyperedge label more/less".into();
        }
        12 => {
            if r.chance(1, 2) {
                raw.o_s_cod = pm(r);
            } else {
                raw.o_t_cod = pm(r);
            }
            raw.what = "open hypergraph: leg codomain off by one".into();
        }
        _ => {}
    }
    raw
}

fn gen_pool_op(r: &mut Rng, c: &gen::GenCfg) -> PoolOp {
    let i = r.below(6);
    let j = r.below(6);
    let legs = |r: &mut Rng| -> Vec<usize> { (0..r.below(4)).map(|_| r.below(16)).collect() };
    let ty = |r: &mut Rng| -> Vec<L> { (0..r.below(3)).map(|_| r.below(c.node_labels) as L).collect() };
    match r.below(17) {
        16 => PoolOp::Optic { i, adapted: r.chance(1, 2) },
        0..=1 => PoolOp::Compose { i, j },
        2..=4 => PoolOp::Sandwich { i, j },
        5 => PoolOp::ComposeDagger { i },
        6..=7 => PoolOp::Tensor { i, j },
        8 => PoolOp::Dagger { i },
        9 => PoolOp::IdentityOn { i },
        10 => PoolOp::TwistAfter { i, j },
        11 => {
            if r.chance(1, 2) {
                PoolOp::SpiderOn { i, s: legs(r), t: legs(r) }
            } else {
                PoolOp::HalfSpiderOn { i, s: legs(r) }
            }
        }
        12 => PoolOp::Singleton { l: r.below(c.edge_labels) as L, a: ty(r), b: ty(r) },
        13 => PoolOp::TensorOperations { ops: (0..r.below(4)).map(|_| (r.below(c.edge_labels) as L, ty(r), ty(r))).collect() },
        14 => PoolOp::Functor { i },
        _ => PoolOp::RoundTrip { i },
    }
}

impl Check for C05 {
    type Case = Case;
    const ID: &'static str = "C05";
    fn runs(tier: Tier) -> u64 {
        crate::runner::scaled(220_000, tier)
    }
    fn generate(r: &mut Rng, tier: Tier) -> Case {
        let mut c = gen::draw_cfg(r, tier);
        c.max_extra_nodes = c.max_extra_nodes.min(if c.huge { 140 } else if c.large { 12 } else { 4 });
        c.max_edges = c.max_edges.min(if c.huge { 70 } else if c.large { 8 } else { 3 });
        let seeds: Vec<Plain> = (0..r.range(1, 3)).map(|_| gen::gen_plain(r, &c, None)).collect();
        // most runs are short; some go deep (up to 40 operations)
        let max = if tier == Tier::Thorough { 40 } else { 30 };
        let k = if r.chance(3, 4) { r.range(1, 6) } else { r.range(6, max) };
        let ops = (0..k).map(|_| gen_pool_op(r, &c)).collect();
        let spec = super::c12::gen_spec(r, c.node_labels);
        let ospec = Some(super::c14::gen_ospec(r, c.node_labels));
        Case { seeds, ops, spec, ospec, raw: gen_raw(r, &c), schedules: r.range(1, 2) }
    }
    fn execute(c: &Case, ex: &mut Exec) -> Result<(), Violation> {
        let mut fp = Fp::new();
        for p in &c.seeds {
            fp.add(p.fingerprint());
        }
        fp.add(crate::rng::hash_str(&format!("{:?}{:?}{:?}", c.ops, c.spec, c.raw)));
        ex.workload_fp = fp.0;
        ex.nontrivial = !c.ops.is_empty() && c.seeds.iter().any(|p| p.n() > 0);
        ex.probe_if(c.seeds.iter().any(|p| p.n() >= 64 || p.m() >= 64), "size_64_or_more");
        ex.probe_if(c.raw.what != "no datum flipped", "corruptions_tried");

        ex.seg_control();
        let o = ex.lib("C05:pool", || B::<SimKind>::c05_pool(c))?;
        judge_pool(ex, "sim/control", o)?;
        let k = ex.lib("C05:constructors", || B::<SimKind>::c05_constructors(&c.raw))?;
        judge_constructors(ex, &c.raw, "sim/control", k)?;
        ex.seg_vec();
        let o = ex.lib("C05:pool", || B::<VecKind>::c05_pool(c))?;
        judge_pool(ex, "vec", o)?;
        let k = ex.lib("C05:constructors", || B::<VecKind>::c05_constructors(&c.raw))?;
        judge_constructors(ex, &c.raw, "vec", k)?;
        let o = ex.lib("C05:lax-pool", || lax_pool(c))?;
        judge_pool(ex, "vec/lax", o)?;
        for _ in 0..c.schedules {
            let pol = ex.seg_perturbed();
            let o = ex.lib("C05:pool", || B::<SimKind>::c05_pool(c))?;
            let name = ex.cfg_name(&pol);
            judge_pool(ex, &name, o)?;
        }
        Ok(())
    }
    fn shrink(c: &Case) -> Vec<Case> {
        let mut out = vec![];
        if c.schedules > 1 {
            out.push(Case { schedules: 1, ..c.clone() });
        }
        let n = c.ops.len();
        if n > 1 {
            out.push(Case { ops: c.ops[..n / 2].to_vec(), ..c.clone() });
            out.push(Case { ops: c.ops[..n - 1].to_vec(), ..c.clone() });
        }
        for i in 0..n {
            let mut d = c.clone();
            d.ops.remove(i);
            out.push(d);
        }
        if c.seeds.len() > 1 {
            for i in 0..c.seeds.len() {
                let mut d = c.clone();
                d.seeds.remove(i);
                out.push(d);
            }
        }
        for i in 0..c.seeds.len() {
            for p in shrink_plain(&c.seeds[i]) {
                let mut d = c.clone();
                d.seeds[i] = p;
                out.push(d);
            }
        }
        if c.spec.kind.iter().any(|k| *k != 0) {
            let mut d = c.clone();
            d.spec.kind = vec![0; d.spec.kind.len()];
            out.push(d);
        }
        for p in shrink_plain(&c.raw.base) {
            let mut d = c.clone();
            d.raw.base = p;
            out.push(d);
        }
        out
    }
    fn rule() -> &'static str {
        "Pool machine: each run seeds a pool with 1-3 generated diagrams and applies 1-6 (3/4 of the runs) or up to 30/40 random public operations to pool members, putting results back (pool of 6, diagrams capped at 28 nodes): compose (arbitrary members: mostly a type mismatch that must be refused), sandwich (p⊗id);(id⊗q), p;p†, tensor, dagger, identity, symmetry after a tensor, spider / half_spider over a member's node labels, singleton, tensor_operations, functor application (the run's generated functor), optic application and adapt (the run's generated optic, compared with the reference substitution of lenses), strict->lax->strict (Vec only); the same sequence runs through the lax public API on the Vec device (operands keep their pending unifications); where an inherent method shadows a trait method of the same name (identity, spider, lax tensor) both are called, alternating by step. After every step on sim/control, vec and 1-2 perturbed schedules: result deep-well-formed (one source and one target list per hyperedge, sizes add up, codomains and every node reference in range; from raw fields), typed as promised, isomorphic to its plain reference twin. Constructors: raw parts of a well-formed base with at most one datum flipped (table entry = codomain, codomain shrunk, size-map codomain / value count / segment size / counts / incidence codomain / label count / leg codomain off by one) handed to FiniteFunction::new, IndexedCoproduct::new / from_semifinite, Operations::new, Hypergraph::new, OpenHypergraph::new on both devices; must accept iff the documented condition holds. Non-trivial iff there is an operation and a non-empty seed; distinct = distinct (workload fingerprint, device decision fingerprint)."
    }
    fn assumptions() -> Vec<&'static str> {
        vec![
            "the constructor clause has no schedule in it: it is fault injection on stored data at the validation boundary, checked on both devices and reported separately (constructor_accepted / constructor_rejected / corruptions_tried)",
            "conditions tested per constructor are the documented ones (those listed in the property's mechanisms); inner invariants of already-validated parts are not re-corrupted",
            "the deep well-formedness checker reads raw public fields and never calls the library's validate()",
        ]
    }
    fn required_probes() -> Vec<&'static str> {
        vec!["pool_results_checked", "pool_depth_ten_or_more", "failure_reported_as_promised", "corruptions_tried", "constructor_accepted", "constructor_rejected"]
    }
    fn components() -> serde_json::Value {
        components_s1()
    }
}
