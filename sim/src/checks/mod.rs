//! One module per claimed property.

use crate::iso::{iso, Iso};
use crate::plain::Plain;
use crate::runner::{viol, Exec, Violation};
use serde_json::{json, Value};

pub mod c01;
pub mod c03;
pub mod c04;
pub mod c05;
pub mod c06;
pub mod c12;
pub mod c14;
pub mod func;
pub mod c15;
pub mod c16;
pub mod c17;
pub mod c18;
pub mod c19;
pub mod c20;
pub mod hist;

/// `got` must be isomorphic (C03's notion) to `want`.  Undecided searches are counted, never flagged.
pub fn expect_iso(ex: &mut Exec, got: &Plain, want: &Plain, class: &str, ctx: &str) -> Result<(), Violation> {
    match iso(got, want) {
        Iso::Yes => Ok(()),
        Iso::Undecided => {
            ex.iso_undecided += 1;
            Ok(())
        }
        Iso::No => viol(class, format!("[{}] result {:?} is not isomorphic to the expected {:?}", ctx, got, want)),
    }
}

/// standard description of which components are real and which are stubs in S1 checks
pub fn components_s1() -> Value {
    json!({
        "real_code": ["all of open-hypergraphs reached by the check (strict algorithms generic in K, finite functions, segmented arrays)", "VecKind backend in the `vec` configuration"],
        "stubs": ["SimKind: the simulated data-parallel device (independent scalar implementation of the array contract; its four open outcomes decided by the seeded scheduler)", "plain list model + reference implementations used as oracle"],
        "configurations_per_workload": ["sim/control (all decisions VecLike, fault-free)", "vec (shipped backend, fault-free)", "sim/perturbed x k (swarm-drawn policies per kind: Reverse, Rotate, Random, ByLargest)"],
    })
}
