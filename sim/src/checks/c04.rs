//! C04 — dagger and spiders give the hypergraph-category (Frobenius) structure.

use super::{components_s1, expect_iso};
use crate::dev::{B, OH};
use crate::dev_impl;
use crate::gen;
use crate::plain::{shrink_plain, Plain, L};
use crate::rng::Rng;
use crate::runner::{viol, Check, Exec, Tier, Violation};
use crate::simkind::SimKind;
use open_hypergraphs::array::vec::{VecArray, VecKind};
use open_hypergraphs::category::{Arrow, Monoidal, Spider, SymmetricMonoidal};
use open_hypergraphs::finite_function::FiniteFunction;
use open_hypergraphs::lax;
use serde::{Deserialize, Serialize};

/// a labelled cospan: legs into the node list w, with *claimed* leg codomains (may be wrong)
#[derive(Serialize, Deserialize, Clone, Debug, Default)]
pub struct Cospan {
    pub s: Vec<usize>,
    pub t: Vec<usize>,
    pub w: Vec<L>,
    /// claimed codomain of s and t (equal to w.len() for a well-typed spider)
    pub s_cod: usize,
    pub t_cod: usize,
}

#[derive(Serialize, Deserialize, Clone, Debug)]
pub struct Case {
    pub f: Plain,
    pub g: Plain,
    /// two spiders with matching boundary types (x.t labels == y.s labels) when both are well-typed
    pub x: Cospan,
    pub y: Cospan,
    pub a: Vec<L>,
    pub b: Vec<L>,
    pub schedules: usize,
}

pub struct C04;

#[derive(Debug)]
pub enum Obs {
    /// diagram that must be isomorphic to the expected one
    Iso(&'static str, Plain, Plain),
    /// diagrams that must be equal as data
    Exact(&'static str, Plain, Plain),
    /// acceptance of a spider constructor: (what, accepted, must accept)
    Accept(&'static str, bool, bool),
}

impl Cospan {
    fn well_typed(&self) -> bool {
        self.s_cod == self.w.len() && self.t_cod == self.w.len()
    }
    fn plain(&self) -> Plain {
        Plain { w: self.w.clone(), e: vec![], s: self.s.clone(), t: self.t.clone() }
    }
}

dev_impl! {
    fn c04_plain(name: &str, f: &OH<K>) -> Result<Plain, String> {
        Self::from_dev(f).map_err(|e| format!("{}: ill-formed result: {}", name, e))
    }
    fn c04_spider(c: &Cospan) -> Option<OH<K>> {
        <OH<K> as Spider<K>>::spider(Self::ff(c.s.clone(), c.s_cod), Self::ff(c.t.clone(), c.t_cod), Self::sf(c.w.clone()))
    }

    pub fn c04_observe(c: &Case) -> Result<Vec<Obs>, String> {
        let mut out = vec![];
        let f = Self::to_dev(&c.f);
        let g = Self::to_dev(&c.g);
        // dagger: swaps the interfaces, leaves nodes and hyperedges untouched, involution
        let fd = f.dagger();
        // types as generic code sees them (through the Arrow trait, not the inherent accessors)
        out.push(Obs::Accept("type-through-Arrow-trait", Self::un_sf(&<OH<K> as Arrow>::source(&f)) == c.f.src_type() && Self::un_sf(&<OH<K> as Arrow>::target(&f)) == c.f.tgt_type(), true));
        out.push(Obs::Accept("dagger-type-through-Arrow-trait", Self::un_sf(&<OH<K> as Arrow>::source(&fd)) == c.f.tgt_type() && Self::un_sf(&<OH<K> as Arrow>::target(&fd)) == c.f.src_type(), true));
        out.push(Obs::Exact("dagger-swaps-interfaces", Self::c04_plain("dagger", &fd)?, c.f.dagger()));
        out.push(Obs::Exact("dagger-involution", Self::c04_plain("dagger", &fd.dagger())?, c.f.clone()));
        // contravariance
        if c.f.tgt_type() == c.g.src_type() {
            let fg = f.compose(&g).ok_or("dagger-contravariant: compose returned None although types match")?;
            let l = fg.dagger();
            let r = g.dagger().compose(&fd).ok_or("dagger-contravariant: g†;f† returned None although types match")?;
            out.push(Obs::Iso("dagger-contravariant", Self::c04_plain("dagger", &l)?, Self::c04_plain("dagger", &r)?));
        }
        // distributes over tensor
        out.push(Obs::Iso("dagger-over-tensor", Self::c04_plain("dagger", &f.tensor(&g).dagger())?, Self::c04_plain("dagger", &fd.tensor(&g.dagger()))?));

        // spider construction: accepted iff both legs land in the node list
        let sx = Self::c04_spider(&c.x);
        let sy = Self::c04_spider(&c.y);
        out.push(Obs::Accept("spider", sx.is_some(), c.x.well_typed()));
        out.push(Obs::Accept("spider", sy.is_some(), c.y.well_typed()));
        let hs = <OH<K> as Spider<K>>::half_spider(Self::ff(c.x.s.clone(), c.x.s_cod), Self::sf(c.x.w.clone()));
        out.push(Obs::Accept("half_spider", hs.is_some(), c.x.s_cod == c.x.w.len()));
        if let Some(hs) = &hs {
            let want = Plain { w: c.x.w.clone(), e: vec![], s: c.x.s.clone(), t: (0..c.x.w.len()).collect() };
            out.push(Obs::Iso("half-spider-is-spider-with-identity-leg", Self::c04_plain("half_spider", hs)?, want));
        }
        if let (Some(sx), Some(sy)) = (&sx, &sy) {
            out.push(Obs::Iso("spider-is-discrete-cospan", Self::c04_plain("spider", sx)?, c.x.plain()));
            // fusion
            let (px, py) = (c.x.plain(), c.y.plain());
            if px.tgt_type() == py.src_type() {
                let fused = sx.compose(sy).ok_or("spider-fusion: compose returned None although boundary types match")?;
                let want = px.glue(&py).expect("types match");
                out.push(Obs::Iso("spider-fusion", Self::c04_plain("spider-fusion", &fused)?, want));
            }
        }
        // identities and symmetries are spiders
        let ab: Vec<L> = c.a.iter().chain(c.b.iter()).copied().collect();
        let n = ab.len();
        let id = OH::<K>::identity(Self::sf(ab.clone()));
        let id_sp = <OH<K> as Spider<K>>::spider(Self::ff((0..n).collect(), n), Self::ff((0..n).collect(), n), Self::sf(ab.clone())).ok_or("identity-as-spider: spider rejected identity legs")?;
        out.push(Obs::Iso("identity-is-spider", Self::c04_plain("identity", &id)?, Self::c04_plain("identity", &id_sp)?));
        let tw = <OH<K> as SymmetricMonoidal>::twist(Self::sf(c.a.clone()), Self::sf(c.b.clone()));
        // as a spider on the node list a ● b: inputs in order, outputs b-block then a-block
        let (na, nb) = (c.a.len(), c.b.len());
        let tw_sp = <OH<K> as Spider<K>>::spider(Self::ff((0..n).collect(), n), Self::ff((na..na + nb).chain(0..na).collect(), n), Self::sf(ab)).ok_or("twist-as-spider: spider rejected permutation legs")?;
        out.push(Obs::Iso("symmetry-is-spider", Self::c04_plain("twist", &tw)?, Self::c04_plain("twist", &tw_sp)?));
        Ok(out)
    }
}

/// the lax versions run on the real Vec device only (the lax module is hard-wired to VecKind)
fn lax_observe(c: &Case) -> Result<Vec<Obs>, String> {
    let mut out = vec![];
    let to_lax = |p: &Plain| lax::OpenHypergraph::<L, L>::from_strict(B::<VecKind>::to_dev(p));
    let from_lax = |f: lax::OpenHypergraph<L, L>, name: &str| -> Result<Plain, String> { B::<VecKind>::from_dev(&f.to_strict()).map_err(|e| format!("{}: {}", name, e)) };
    let lf = to_lax(&c.f);
    let ld = lf.dagger();
    // exactness is observed on the lax fields themselves (strictifying would add a quotient, whose
    // numbering of classes is free), the meaning up to isomorphism through to_strict
    out.push(Obs::Accept("lax-dagger-swaps-interfaces-and-leaves-the-rest-untouched", ld.sources == lf.targets && ld.targets == lf.sources && ld.hypergraph == lf.hypergraph, true));
    out.push(Obs::Accept("lax-dagger-involution", ld.dagger() == lf, true));
    out.push(Obs::Iso("lax-dagger-swaps-interfaces", from_lax(ld.clone(), "lax dagger")?, c.f.dagger()));
    let mk = |k: &Cospan| lax::OpenHypergraph::<L, L>::spider(FiniteFunction::<VecKind> { table: VecArray(k.s.clone()), target: k.s_cod }, FiniteFunction::<VecKind> { table: VecArray(k.t.clone()), target: k.t_cod }, k.w.clone());
    // lax identities and symmetries are spiders too
    let ab: Vec<L> = c.a.iter().chain(c.b.iter()).copied().collect();
    out.push(Obs::Iso("lax-identity-is-spider", from_lax(<lax::OpenHypergraph<L, L> as Arrow>::identity(ab.clone()), "lax identity")?, Plain::identity(&ab)));
    out.push(Obs::Iso("lax-symmetry-is-spider", from_lax(<lax::OpenHypergraph<L, L> as SymmetricMonoidal>::twist(c.a.clone(), c.b.clone()), "lax twist")?, Plain::twist(&c.a, &c.b)));
    // types through the category trait (generic code sees these, not the inherent accessors)
    let lt = <lax::OpenHypergraph<L, L> as SymmetricMonoidal>::twist(c.a.clone(), c.b.clone());
    let ba: Vec<L> = c.b.iter().chain(c.a.iter()).copied().collect();
    out.push(Obs::Accept("lax-twist-type-through-Arrow-trait", Arrow::source(&lt) == ab && Arrow::target(&lt) == ba, true));
    out.push(Obs::Accept("lax-dagger-type-through-Arrow-trait", Arrow::source(&ld) == c.f.tgt_type() && Arrow::target(&ld) == c.f.src_type(), true));
    let (sx, sy) = (mk(&c.x), mk(&c.y));
    out.push(Obs::Accept("lax-spider", sx.is_some(), c.x.well_typed()));
    out.push(Obs::Accept("lax-spider", sy.is_some(), c.y.well_typed()));
    // the trait-level constructors (the inherent `spider` shadows the trait method in a plain call)
    {
        type LOH = lax::OpenHypergraph<L, L>;
        let leg = |t: &Vec<usize>, cod: usize| FiniteFunction::<VecKind> { table: VecArray(t.clone()), target: cod };
        for k in [&c.x, &c.y] {
            let sp = <LOH as Spider<VecKind>>::spider(leg(&k.s, k.s_cod), leg(&k.t, k.t_cod), k.w.clone());
            out.push(Obs::Accept("lax-spider-through-Spider-trait", sp.is_some(), k.well_typed()));
            if let Some(sp) = sp {
                out.push(Obs::Iso("lax-trait-spider-is-discrete-cospan", from_lax(sp, "lax trait spider")?, k.plain()));
            }
            let hs = <LOH as Spider<VecKind>>::half_spider(leg(&k.s, k.s_cod), k.w.clone());
            out.push(Obs::Accept("lax-half_spider", hs.is_some(), k.s_cod == k.w.len()));
            if let Some(hs) = hs {
                let want = Plain { w: k.w.clone(), e: vec![], s: k.s.clone(), t: (0..k.w.len()).collect() };
                out.push(Obs::Iso("lax-half-spider-is-spider-with-identity-leg", from_lax(hs, "lax half_spider")?, want));
            }
        }
    }
    if let (Some(sx), Some(sy)) = (sx, sy) {
        let (px, py) = (c.x.plain(), c.y.plain());
        out.push(Obs::Iso("lax-spider-is-discrete-cospan", from_lax(sx.clone(), "lax spider")?, px.clone()));
        if px.tgt_type() == py.src_type() {
            let fused = sx.compose(&sy).ok_or("lax-spider-fusion: compose returned None although boundary types match")?;
            let want = px.glue(&py).expect("types match");
            out.push(Obs::Iso("lax-spider-fusion", from_lax(fused.clone(), "lax spider fusion")?, want.clone()));
            // operands that still carry pending unifications (unquotiented composites) on either side
            let idl = lax::OpenHypergraph::<L, L>::identity(px.src_type());
            let idr = lax::OpenHypergraph::<L, L>::identity(py.tgt_type());
            let l = idl.compose(&fused).ok_or("lax: id ; (x;y) undefined")?;
            out.push(Obs::Iso("lax-spider-fusion-nested-right", from_lax(l, "lax id;(x;y)")?, want.clone()));
            let r = fused.compose(&idr).ok_or("lax: (x;y) ; id undefined")?;
            out.push(Obs::Iso("lax-spider-fusion-nested-left", from_lax(r, "lax (x;y);id")?, want.clone()));
            out.push(Obs::Iso("lax-dagger-contravariant", from_lax(fused.dagger(), "lax (x;y)†")?, from_lax(sy.dagger().compose(&sx.dagger()).ok_or("lax: y†;x† undefined")?, "lax y†;x†")?));
            out.push(Obs::Iso("lax-tensor-with-pending-right-operand", from_lax(lf.tensor(&fused), "lax f⊗(x;y)")?, c.f.tensor(&want)));
            out.push(Obs::Iso("lax-tensor-with-pending-left-operand", from_lax(fused.tensor(&lf), "lax (x;y)⊗f")?, want.tensor(&c.f)));
            out.push(Obs::Iso("lax-dagger-over-tensor", from_lax(lf.tensor(&fused).dagger(), "lax (f⊗(x;y))†")?, from_lax(lf.dagger().tensor(&fused.dagger()), "lax f†⊗(x;y)†")?));
        }
    }
    Ok(out)
}

fn judge(ex: &mut Exec, cfg: &str, r: Result<Result<Vec<Obs>, String>, Violation>) -> Result<(), Violation> {
    match r? {
        Err(e) => viol("C04:undefined-or-ill-formed", format!("[{}] {}", cfg, e)),
        Ok(obs) => {
            for o in obs {
                match o {
                    Obs::Iso(name, l, r) => {
                        expect_iso(ex, &l, &r, &format!("C04:{}", name), cfg)?;
                        if name == "spider-fusion" || name == "lax-spider-fusion" {
                            ex.probe("spider_fusions");
                        }
                    }
                    Obs::Exact(name, l, r) => {
                        if l != r {
                            return viol(&format!("C04:{}", name), format!("[{}] got {:?}, expected exactly {:?}", cfg, l, r));
                        }
                    }
                    Obs::Accept(what, got, want) => {
                        if got != want {
                            return viol(&format!("C04:{}-acceptance", what), format!("[{}] {} returned {} but must {}", cfg, what, if got { "Some" } else { "None" }, if want { "accept (both legs land in the node list)" } else { "reject (a leg's codomain differs from the node count)" }));
                        }
                        ex.probe(if want { "spider_accepted" } else { "spider_rejected" });
                    }
                }
            }
            Ok(())
        }
    }
}

fn gen_cospan(r: &mut Rng, labels: usize, src_ty: Option<&[L]>) -> Cospan {
    // node list, possibly empty; legs non-injective and non-surjective
    let mut w: Vec<L> = vec![];
    let mut s = vec![];
    if let Some(ty) = src_ty {
        for &l in ty {
            let same: Vec<usize> = (0..w.len()).filter(|j| w[*j] == l).collect();
            if !same.is_empty() && r.chance(1, 2) {
                s.push(*r.pick(&same));
            } else {
                w.push(l);
                s.push(w.len() - 1);
            }
        }
    }
    for _ in 0..r.below(4) {
        w.push(r.below(labels) as L);
    }
    let n = w.len();
    if src_ty.is_none() && n > 0 {
        s = (0..r.below(5)).map(|_| r.below(n)).collect();
    }
    let t: Vec<usize> = if n == 0 { vec![] } else { (0..r.below(5)).map(|_| r.below(n)).collect() };
    Cospan { s, t, w, s_cod: n, t_cod: n }
}

fn corrupt_codomain(r: &mut Rng, c: &mut Cospan) {
    // off by one either way, or zero; the table must stay within the claimed codomain
    let n = c.w.len();
    let pick = |r: &mut Rng, table: &Vec<usize>| -> usize {
        let need = table.iter().max().map_or(0, |m| m + 1);
        let mut opts = vec![n + 1];
        if n >= 1 && n - 1 >= need {
            opts.push(n - 1);
        }
        if need == 0 && n != 0 {
            opts.push(0);
        }
        *r.pick(&opts)
    };
    match r.below(3) {
        0 => c.s_cod = pick(r, &c.s),
        1 => c.t_cod = pick(r, &c.t),
        _ => {
            c.s_cod = pick(r, &c.s);
            c.t_cod = pick(r, &c.t);
        }
    }
}

impl Check for C04 {
    type Case = Case;
    const ID: &'static str = "C04";
    fn runs(tier: Tier) -> u64 {
        crate::runner::scaled(600000, tier)
    }
    fn generate(r: &mut Rng, tier: Tier) -> Case {
        let c = gen::draw_cfg(r, tier);
        let (f, g) = gen::gen_pair(r, &c);
        let mut x = gen_cospan(r, c.node_labels, None);
        let xt: Vec<L> = x.t.iter().map(|i| x.w[*i]).collect();
        let mut y = gen_cospan(r, c.node_labels, Some(&xt));
        if r.chance(1, 5) {
            corrupt_codomain(r, &mut x);
        }
        if r.chance(1, 8) {
            corrupt_codomain(r, &mut y);
        }
        Case { f, g, x, y, a: gen::gen_type(r, &c), b: gen::gen_type(r, &c), schedules: r.range(1, 3) }
    }
    fn execute(c: &Case, ex: &mut Exec) -> Result<(), Violation> {
        let mut fp = crate::rng::Fp::new();
        fp.add(c.f.fingerprint());
        fp.add(c.g.fingerprint());
        for k in [&c.x, &c.y] {
            fp.add(k.plain().fingerprint());
            fp.add((k.s_cod * 31 + k.t_cod) as u64);
        }
        for t in [&c.a, &c.b] {
            fp.add(t.len() as u64);
            for l in t {
                fp.add(*l as u64);
            }
        }
        ex.workload_fp = fp.0;
        ex.nontrivial = c.f.n() + c.x.w.len() > 0;
        ex.probe_if(c.f.n() >= 64 || c.f.m() >= 64 || c.f.s.len() >= 64 || c.f.t.len() >= 64, "size_64_or_more");
        ex.probe_if(c.f.n() >= 256 || c.f.m() >= 256 || c.f.s.len() >= 256 || c.f.t.len() >= 256, "size_256_or_more");
        ex.probe_if(c.x.w.is_empty() && c.x.well_typed(), "spider_with_empty_node_set");
        ex.probe_if(c.x.well_typed() && (0..c.x.w.len()).any(|v| !c.x.t.contains(&v)), "non_surjective_leg");
        ex.probe_if(c.x.well_typed() && (0..c.x.t.len()).any(|i| c.x.t[..i].contains(&c.x.t[i])), "non_injective_leg");

        ex.seg_control();
        let r = ex.lib("C04:ops", || B::<SimKind>::c04_observe(c));
        judge(ex, "sim/control", r)?;
        ex.seg_vec();
        let r = ex.lib("C04:ops", || B::<VecKind>::c04_observe(c));
        judge(ex, "vec", r)?;
        let r = ex.lib("C04:lax-ops", || lax_observe(c));
        judge(ex, "vec/lax", r)?;
        for _ in 0..c.schedules {
            let pol = ex.seg_perturbed();
            let r = ex.lib("C04:ops", || B::<SimKind>::c04_observe(c));
            let name = ex.cfg_name(&pol);
            judge(ex, &name, r)?;
        }
        Ok(())
    }
    fn shrink(c: &Case) -> Vec<Case> {
        let mut out = vec![];
        if c.schedules > 1 {
            out.push(Case { schedules: 1, ..c.clone() });
        }
        if c.f.size() > 0 {
            out.push(Case { f: Plain::empty(), ..c.clone() });
        }
        if c.g.size() > 0 {
            out.push(Case { g: Plain::empty(), ..c.clone() });
        }
        for which in 0..2 {
            let k = if which == 0 { &c.x } else { &c.y };
            let mut cands: Vec<Cospan> = vec![];
            if !k.w.is_empty() || !k.s.is_empty() || !k.t.is_empty() || k.s_cod != 0 || k.t_cod != 0 {
                cands.push(Cospan::default());
            }
            for i in 0..k.s.len() {
                let mut d = k.clone();
                d.s.remove(i);
                cands.push(d);
            }
            for i in 0..k.t.len() {
                let mut d = k.clone();
                d.t.remove(i);
                cands.push(d);
            }
            // drop an unreferenced last node of a well-typed cospan
            if let Some(last) = k.w.len().checked_sub(1) {
                if k.well_typed() && !k.s.contains(&last) && !k.t.contains(&last) {
                    let mut d = k.clone();
                    d.w.pop();
                    d.s_cod = last;
                    d.t_cod = last;
                    cands.push(d);
                }
            }
            for d in cands {
                let mut e = c.clone();
                if which == 0 {
                    e.x = d;
                } else {
                    e.y = d;
                }
                out.push(e);
            }
        }
        for i in 0..2 {
            let mut d = c.clone();
            let t = if i == 0 { &mut d.a } else { &mut d.b };
            if !t.is_empty() {
                t.pop();
                out.push(d);
            }
        }
        for f in shrink_plain(&c.f) {
            out.push(Case { f, ..c.clone() });
        }
        for g in shrink_plain(&c.g) {
            out.push(Case { g, ..c.clone() });
        }
        out
    }
    fn rule() -> &'static str {
        "Each run draws a composable pair (f,g), two labelled cospans x,y with matching boundary types (non-injective / non-surjective legs, empty node sets; with probability 1/5 resp. 1/8 a claimed leg codomain is corrupted: off by one either way or zero) and two object lists. On each configuration (sim/control, vec, vec/lax, 1-3 perturbed schedules): dagger swaps interfaces exactly and is an involution exactly; (f;g)† ≅ g†;f†; (f⊗g)† ≅ f†⊗g†; spider/half_spider (strict; lax inherent and through the Spider trait) accepted iff both legs land in the node list; spider ≅ its discrete cospan; spider;spider ≅ reference cospan composition; identity and symmetry ≅ the corresponding spiders (strict and lax); the lax law instances are also evaluated on operands that still carry pending unifications (unquotiented composites on either side of compose / tensor); source and target types are also read through the Arrow trait. Non-trivial iff f or x has a node; distinct = distinct (workload fingerprint, device decision fingerprint) pairs."
    }
    fn assumptions() -> Vec<&'static str> {
        vec![
            "reference cospan composition = reference gluing of discrete diagrams (plain model)",
            "the lax Spider/dagger implementations run on the real Vec device only (lax is hard-wired to VecKind): no schedule dimension there",
            "a corrupted leg keeps its table within the claimed codomain (FiniteFunction::new would reject it otherwise; that is C05/C06's subject)",
        ]
    }
    fn required_probes() -> Vec<&'static str> {
        vec!["spider_fusions", "spider_accepted", "spider_rejected", "spider_with_empty_node_set", "non_surjective_leg", "non_injective_leg"]
    }
    fn components() -> serde_json::Value {
        components_s1()
    }
}
