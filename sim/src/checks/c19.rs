//! C19 — Var-built terms mean the expression written; forgetting copies keeps meaning.
//!
//! The Var builder machine: shared `Rc<RefCell<OpenHypergraph>>` state hit by operator
//! applications of logically independent sub-expressions in a scheduler-chosen linear extension,
//! with handle clones, drops and leaks as further steps.  Plus `forget` / `forget_monogamous` on
//! arbitrary well-formed lax terms containing variable-labelled hyperedges.

use super::expect_iso;
use crate::dev::B;
use crate::plain::{edge, Plain, L};
use crate::rng::{mix, Fp, Rng};
use crate::runner::{viol, Check, Exec, Tier, Violation};
use open_hypergraphs::array::vec::{VecArray, VecKind};
use open_hypergraphs::indexed_coproduct::IndexedCoproduct;
use open_hypergraphs::lax::var::{self, forget, HasAdd, HasBitAnd, HasBitOr, HasBitXor, HasDiv, HasMul, HasNeg, HasNot, HasShl, HasShr, HasSub, HasVar, Var};
use open_hypergraphs::lax::{EdgeId, Hyperedge, NodeId, OpenHypergraph};
use open_hypergraphs::semifinite::SemifiniteFunction;
use open_hypergraphs::strict::eval::eval;
use serde::{Deserialize, Serialize};
use serde_json::json;
use std::cell::RefCell;
use std::rc::Rc;

/// edge labels of the test signature (newtype so that the operator traits can be implemented)
#[derive(Clone, PartialEq, Eq, Debug)]
pub struct VL(pub L);

pub const VAR: L = 0;
// a multi-sorted signature: the operator chosen depends on the operand types
const BIN: L = 10; // + k + 16 * (3 * left type + right type), k in 0..=8: add mul sub and or xor shl shr div
const UN: L = 200; // + k + 16 * operand type, k in 0..=1: neg not
const GEN: L = 400; // + code*4 + outs
const CONST: L = 1000; // + c
fn bin_label(k: L, a: L, b: L) -> L {
    BIN + k + 16 * (3 * (a % 3) + (b % 3))
}
fn un_label(k: L, a: L) -> L {
    UN + k + 16 * (a % 3)
}

impl HasVar for VL {
    fn var() -> VL {
        VL(VAR)
    }
}
/// result label of an operator: depends on the operands' labels so that mixed labels occur
fn res_label(k: L, a: L, b: L) -> L {
    if k % 2 == 0 {
        a
    } else {
        (a + b) % 3
    }
}
macro_rules! has_bin {
    ($tr:ident, $f:ident, $k:expr) => {
        impl $tr<L, VL> for VL {
            fn $f(a: L, b: L) -> (L, VL) {
                (res_label($k, a, b), VL(bin_label($k, a, b)))
            }
        }
    };
}
has_bin!(HasAdd, add, 0);
has_bin!(HasMul, mul, 1);
has_bin!(HasSub, sub, 2);
has_bin!(HasBitAnd, bitand, 3);
has_bin!(HasBitOr, bitor, 4);
has_bin!(HasBitXor, bitxor, 5);
has_bin!(HasShl, shl, 6);
has_bin!(HasShr, shr, 7);
has_bin!(HasDiv, div, 8);
impl HasNeg<L, VL> for VL {
    fn neg(a: L) -> (L, VL) {
        (a, VL(un_label(0, a)))
    }
}
impl HasNot<L, VL> for VL {
    fn not(a: L) -> (L, VL) {
        ((a + 1) % 3, VL(un_label(1, a)))
    }
}

/// meaning of a non-variable hyperedge label
pub fn interp(l: L, x: &[u64], n_out: usize) -> Vec<u64> {
    // total on purpose: an operator hyperedge wired with the wrong number of sources (a library
    // fault, not a harness fault) gets a value no correct term can produce, so the comparison of
    // meanings reports it instead of the harness indexing out of range
    if ((BIN..UN).contains(&l) && x.len() != 2) || ((UN..GEN).contains(&l) && x.len() != 1) {
        return (0..n_out.max(1) as u64).map(|j| x.iter().fold(mix(0xBAD0_A817 ^ l as u64, j), |a, v| mix(a, *v))).collect();
    }
    if (BIN..UN).contains(&l) {
        // every binary operator of the test signature is deliberately non-commutative (the left
        // operand is rotated first), so that transposed operands change the meaning
        let (a, b) = (x[0].rotate_left(1) ^ 0x5, x[1]);
        return vec![match (l - BIN) % 16 {
            0 => a.wrapping_add(b),
            1 => a.wrapping_mul(b),
            2 => a.wrapping_sub(b),
            3 => a & b,
            4 => a | b,
            5 => a ^ b,
            6 => a << (b % 64),
            7 => a >> (b % 64),
            _ => {
                if b == 0 {
                    0
                } else {
                    a / b
                }
            }
        }];
    }
    if (UN..GEN).contains(&l) {
        return vec![if (l - UN) % 16 == 0 { x[0].wrapping_neg() } else { !x[0] }];
    }
    if l >= CONST {
        return vec![(l - CONST) as u64];
    }
    // generic operation: any arity
    (0..n_out as u64).map(|j| x.iter().fold(mix(l as u64, j), |a, v| mix(a, *v))).collect()
}

#[derive(Clone, Debug, Serialize, Deserialize, PartialEq)]
pub enum Step {
    Bin { op: u8, a: usize, b: usize },
    Un { op: u8, a: usize },
    Const { c: u64, label: L },
    Gen { code: u8, args: Vec<usize>, out_labels: Vec<L> },
    /// clone the handle of a value and keep the clone alive until it is dropped (or the closure ends)
    CloneHandle { v: usize },
    DropClone { k: usize },
}
impl Step {
    fn produces(&self) -> usize {
        match self {
            Step::Bin { .. } | Step::Un { .. } | Step::Const { .. } => 1,
            Step::Gen { out_labels, .. } => out_labels.len(),
            _ => 0,
        }
    }
    fn reads(&self) -> Vec<usize> {
        match self {
            Step::Bin { a, b, .. } => vec![*a, *b],
            Step::Un { a, .. } => vec![*a],
            Step::Gen { args, .. } => args.clone(),
            Step::CloneHandle { v } => vec![*v],
            _ => vec![],
        }
    }
    fn is_operator(&self) -> bool {
        self.produces() > 0 || matches!(self, Step::Gen { .. })
    }
}

#[derive(Clone, Debug, Serialize, Deserialize)]
pub struct VarCase {
    pub in_labels: Vec<L>,
    pub steps: Vec<Step>,
    /// linear extensions: orders in which the steps hit the shared builder
    pub orders: Vec<Vec<usize>>,
    pub outs: Vec<usize>,
    /// leak a clone of this value's handle outside the builder closure
    pub leak: Option<usize>,
    pub inputs: Vec<Vec<u64>>,
}

#[derive(Clone, Debug, Serialize, Deserialize)]
pub struct LaxTerm {
    pub nodes: Vec<L>,
    pub edges: Vec<(L, Vec<usize>, Vec<usize>)>,
    pub unify: Vec<(usize, usize)>,
    pub s: Vec<usize>,
    pub t: Vec<usize>,
}

#[derive(Clone, Debug, Serialize, Deserialize)]
pub enum Case {
    Var(VarCase),
    Forget(LaxTerm),
}

pub struct C19;

// --------------------------------------------------------------------------- Var machine

fn value_bases(c: &VarCase) -> Vec<usize> {
    let mut base = vec![];
    let mut k = c.in_labels.len();
    for s in &c.steps {
        base.push(k);
        k += s.produces();
    }
    base
}
fn n_values(c: &VarCase) -> usize {
    c.in_labels.len() + c.steps.iter().map(|s| s.produces()).sum::<usize>()
}

/// is `order` a permutation of the steps in which every step comes after the steps defining what it reads?
fn valid_order(c: &VarCase, order: &[usize]) -> bool {
    let n = c.steps.len();
    if order.len() != n {
        return false;
    }
    let base = value_bases(c);
    let nin = c.in_labels.len();
    let mut defined = vec![false; n_values(c)];
    for v in 0..nin {
        defined[v] = true;
    }
    let mut seen = vec![false; n];
    for &i in order {
        if i >= n || seen[i] {
            return false;
        }
        seen[i] = true;
        if c.steps[i].reads().iter().any(|v| *v >= defined.len() || !defined[*v]) {
            return false;
        }
        for k in 0..c.steps[i].produces() {
            defined[base[i] + k] = true;
        }
    }
    true
}

fn well_formed_case(c: &VarCase) -> bool {
    let canonical: Vec<usize> = (0..c.steps.len()).collect();
    valid_order(c, &canonical) && c.outs.iter().all(|v| *v < n_values(c)) && c.leak.map_or(true, |v| v < n_values(c)) && {
        // distinct input variables are declared by construction; Bin/Un op codes in range
        c.steps.iter().all(|s| match s {
            Step::Bin { op, .. } => *op <= 8,
            Step::Un { op, .. } => *op <= 1,
            Step::Gen { out_labels, .. } => out_labels.len() <= 3,
            _ => true,
        })
    }
}

/// direct evaluation of the expression DAG
fn direct(c: &VarCase, input: &[u64]) -> Vec<u64> {
    let base = value_bases(c);
    let mut val = vec![0u64; n_values(c)];
    val[..input.len()].copy_from_slice(input);
    for (i, s) in c.steps.iter().enumerate() {
        match s {
            Step::Bin { op, a, b } => val[base[i]] = interp(bin_label(*op as L, 0, 0), &[val[*a], val[*b]], 1)[0],
            Step::Un { op, a } => val[base[i]] = interp(un_label(*op as L, 0), &[val[*a]], 1)[0],
            Step::Const { c, .. } => val[base[i]] = *c,
            Step::Gen { code, args, out_labels } => {
                let xs: Vec<u64> = args.iter().map(|v| val[*v]).collect();
                let ys = interp(GEN + *code as L * 4 + out_labels.len() as L, &xs, out_labels.len());
                for (k, y) in ys.iter().enumerate() {
                    val[base[i] + k] = *y;
                }
            }
            _ => {}
        }
    }
    c.outs.iter().map(|v| val[*v]).collect()
}

/// the type (node label) of every value and the label of every applied operator, as the expression
/// written prescribes them
fn expected_labels(c: &VarCase) -> (Vec<L>, Vec<L>) {
    let base = value_bases(c);
    let mut ty = vec![0 as L; n_values(c)];
    ty[..c.in_labels.len()].copy_from_slice(&c.in_labels);
    let mut ops = vec![];
    for (i, s) in c.steps.iter().enumerate() {
        match s {
            Step::Bin { op, a, b } => {
                ty[base[i]] = res_label(*op as L, ty[*a], ty[*b]);
                ops.push(bin_label(*op as L, ty[*a], ty[*b]));
            }
            Step::Un { op, a } => {
                ty[base[i]] = if *op == 0 { ty[*a] } else { (ty[*a] + 1) % 3 };
                ops.push(un_label(*op as L, ty[*a]));
            }
            Step::Const { c: k, label } => {
                ty[base[i]] = *label;
                ops.push(CONST + *k as L);
            }
            Step::Gen { code, out_labels, .. } => {
                for (k, l) in out_labels.iter().enumerate() {
                    ty[base[i] + k] = *l;
                }
                ops.push(GEN + *code as L * 4 + out_labels.len() as L);
            }
            _ => {}
        }
    }
    (ty, ops)
}

struct Built {
    result: Result<OpenHypergraph<L, VL>, ()>,
    recovered: Option<OpenHypergraph<L, VL>>,
    recovery_failed: bool,
    /// invariant violations observed between steps
    invariant: Option<String>,
    input_edges: Vec<EdgeId>,
    out_edges: Vec<EdgeId>,
    /// the variable hyperedge of every value
    value_edges: Vec<EdgeId>,
}

/// run the builder under one linear extension
fn build_under(c: &VarCase, order: &[usize], leak: Option<usize>) -> Built {
    let base = value_bases(c);
    let nv = n_values(c);
    let stash: RefCell<Vec<Var<L, VL>>> = RefCell::new(vec![]);
    let invariant: RefCell<Option<String>> = RefCell::new(None);
    let input_edges: RefCell<Vec<EdgeId>> = RefCell::new(vec![]);
    let out_edges: RefCell<Vec<EdgeId>> = RefCell::new(vec![]);
    let value_edges: RefCell<Vec<EdgeId>> = RefCell::new(vec![]);
    let res = var::build(|st: &Rc<RefCell<OpenHypergraph<L, VL>>>| {
        let mut vars: Vec<Option<Var<L, VL>>> = vec![None; nv];
        let mut uses = vec![0usize; nv]; // targets the var edge of each value must have so far
        let mut clones: Vec<Option<Var<L, VL>>> = vec![];
        let mut operators = 0usize;
        for (i, l) in c.in_labels.iter().enumerate() {
            vars[i] = Some(Var::new(st.clone(), *l));
        }
        *input_edges.borrow_mut() = (0..c.in_labels.len()).map(|i| vars[i].as_ref().unwrap().edge_id).collect();
        let check = |vars: &Vec<Option<Var<L, VL>>>, uses: &Vec<usize>, operators: usize, after: &str| {
            if invariant.borrow().is_some() {
                return;
            }
            let state = match st.try_borrow_mut() {
                Ok(s) => s,
                Err(_) => {
                    *invariant.borrow_mut() = Some(format!("{}: the shared builder state was left borrowed", after));
                    return;
                }
            };
            // what the property states: one (non-variable) hyperedge per applied operator.  How
            // variables are represented in between (one variable hyperedge each, one fresh node per
            // use) is the current mechanism, not part of the statement: only recorded, not enforced.
            let non_var = state.hypergraph.edges.iter().filter(|l| l.0 != VAR).count();
            if non_var != operators {
                *invariant.borrow_mut() = Some(format!("{}: {} non-variable hyperedges for {} applied operators", after, non_var, operators));
                return;
            }
            let _ = (vars, uses);
        };
        check(&vars, &uses, operators, "after declaring the inputs");
        for &i in order {
            let get = |v: usize| vars[v].clone().expect("harness: value used before its definition");
            match &c.steps[i] {
                Step::Bin { op, a, b } => {
                    let (x, y) = (get(*a), get(*b));
                    uses[*a] += 1;
                    uses[*b] += 1;
                    let r = match op {
                        0 => x + y,
                        1 => x * y,
                        2 => x - y,
                        3 => x & y,
                        4 => x | y,
                        5 => x ^ y,
                        6 => x << y,
                        7 => x >> y,
                        _ => x / y,
                    };
                    vars[base[i]] = Some(r);
                    operators += 1;
                }
                Step::Un { op, a } => {
                    let x = get(*a);
                    uses[*a] += 1;
                    vars[base[i]] = Some(if *op == 0 { -x } else { !x });
                    operators += 1;
                }
                Step::Const { c: k, label } => {
                    vars[base[i]] = Some(var::fn_operation(st, &[], *label, VL(CONST + (*k as L))));
                    operators += 1;
                }
                Step::Gen { code, args, out_labels } => {
                    let xs: Vec<Var<L, VL>> = args.iter().map(|v| get(*v)).collect();
                    for v in args {
                        uses[*v] += 1;
                    }
                    let rs = var::operation(st, &xs, out_labels.clone(), VL(GEN + *code as L * 4 + out_labels.len() as L));
                    if rs.len() != out_labels.len() {
                        *invariant.borrow_mut() = Some(format!("operation returned {} result variables for {} result types", rs.len(), out_labels.len()));
                    }
                    for (k, r) in rs.into_iter().enumerate() {
                        if base[i] + k < vars.len() {
                            vars[base[i] + k] = Some(r);
                        }
                    }
                    operators += 1;
                }
                Step::CloneHandle { v } => clones.push(Some(get(*v))),
                Step::DropClone { k } => {
                    if let Some(slot) = clones.get_mut(*k) {
                        *slot = None;
                    }
                }
            }
            check(&vars, &uses, operators, &format!("after step {:?}", c.steps[i]));
        }
        if let Some(v) = leak {
            if let Some(x) = &vars[v] {
                stash.borrow_mut().push(x.clone());
            }
        }
        *out_edges.borrow_mut() = c.outs.iter().map(|v| vars[*v].as_ref().unwrap().edge_id).collect();
        *value_edges.borrow_mut() = vars.iter().map(|v| v.as_ref().map_or(EdgeId(usize::MAX), |v| v.edge_id)).collect();
        let ins: Vec<Var<L, VL>> = (0..c.in_labels.len()).map(|i| vars[i].clone().unwrap()).collect();
        let outs: Vec<Var<L, VL>> = c.outs.iter().map(|v| vars[*v].clone().unwrap()).collect();
        (ins, outs)
    });
    let (result, recovered, recovery_failed) = match res {
        Ok(t) => (Ok(t), None, false),
        Err(rc) => {
            // hand the state back: after dropping the leaked handles it must be uniquely owned
            stash.borrow_mut().clear();
            match Rc::try_unwrap(rc) {
                Ok(cell) => (Err(()), Some(cell.into_inner()), false),
                Err(_) => (Err(()), None, true),
            }
        }
    };
    Built { result, recovered, recovery_failed, invariant: invariant.into_inner(), input_edges: input_edges.into_inner(), out_edges: out_edges.into_inner(), value_edges: value_edges.into_inner() }
}

fn lax_to_plain(t: &OpenHypergraph<L, VL>) -> Plain {
    Plain {
        w: t.hypergraph.nodes.clone(),
        e: t.hypergraph.edges.iter().zip(t.hypergraph.adjacency.iter()).map(|(l, a)| edge(l.0, a.sources.iter().map(|x| x.0).collect(), a.targets.iter().map(|x| x.0).collect())).collect(),
        s: t.sources.iter().map(|x| x.0).collect(),
        t: t.targets.iter().map(|x| x.0).collect(),
    }
}

/// strictify on the plain model: apply the pending unifications (label-consistent by construction)
fn strictify(t: &OpenHypergraph<L, VL>) -> Plain {
    let p = lax_to_plain(t);
    let pairs: Vec<(usize, usize)> = t.hypergraph.quotient.0.iter().zip(t.hypergraph.quotient.1.iter()).map(|(a, b)| (a.0, b.0)).collect();
    p.quotient_by(&pairs).expect("harness: pending unifications are label-consistent").0
}

/// reference meaning of a (strict, plain) term with variable hyperedges read as copies;
/// None if it cannot be evaluated by single-assignment propagation
fn reference_eval_copies(p: &Plain, input: &[u64]) -> Option<Vec<u64>> {
    let mut val: Vec<Option<u64>> = vec![None; p.w.len()];
    for (i, v) in p.s.iter().enumerate() {
        val[*v] = Some(input[i]);
    }
    let mut done = vec![false; p.e.len()];
    loop {
        let mut progress = false;
        for (i, e) in p.e.iter().enumerate() {
            if done[i] || !e.s.iter().all(|v| val[*v].is_some()) {
                continue;
            }
            let xs: Vec<u64> = e.s.iter().map(|v| val[*v].unwrap()).collect();
            let ys: Vec<u64> = if e.l == VAR {
                if xs.is_empty() {
                    continue; // a variable that is never defined has no value
                }
                vec![xs[0]; e.t.len()]
            } else {
                interp(e.l, &xs, e.t.len())
            };
            for (k, v) in e.t.iter().enumerate() {
                val[*v] = Some(ys[k]);
            }
            done[i] = true;
            progress = true;
        }
        if !progress {
            break;
        }
    }
    p.t.iter().map(|v| val[*v]).collect()
}

/// library evaluation of a term without variable hyperedges
fn lib_eval(t: &OpenHypergraph<L, VL>, input: &[u64]) -> Option<Vec<u64>> {
    let strict = t.clone().to_strict();
    // output arity by (label, position) is not visible to apply; all non-variable labels of the
    // signature determine it: 1 for operators and constants, encoded in the label for Gen
    eval::<VecKind, L, VL, u64>(&strict, VecArray(input.to_vec()), |ops, args| {
        let args: Vec<SemifiniteFunction<VecKind, u64>> = args.into_iter().collect();
        let mut sizes = vec![];
        let mut vals = vec![];
        for (o, x) in ops.0.iter().zip(args.iter()) {
            let l = o.0;
            let n_out = if l >= CONST || l < GEN { 1 } else { ((l - GEN) % 4) as usize };
            let ys = if l == VAR { vec![] } else { interp(l, &x.0 .0, n_out) };
            sizes.push(ys.len());
            vals.extend(ys);
        }
        IndexedCoproduct::from_semifinite(SemifiniteFunction::new(VecArray(sizes)), SemifiniteFunction::new(VecArray(vals))).expect("harness: apply result")
    })
    .map(|o| o.0)
}

/// reference forgetting on the strict plain term: uniform variable hyperedges become one merged
/// node (nothing when they have no incident node); `only_1_1` = the monogamous variant
fn forget_ref(p: &Plain, only_1_1: bool) -> Plain {
    let mut pairs = vec![];
    let mut keep = vec![];
    for e in &p.e {
        let inc: Vec<usize> = e.s.iter().chain(e.t.iter()).copied().collect();
        let uniform = inc.iter().all(|v| p.w[*v] == p.w[inc[0]]);
        let eligible = e.l == VAR && uniform && (!only_1_1 || (e.s.len() == 1 && e.t.len() == 1));
        if eligible {
            for v in &inc {
                pairs.push((inc[0], *v));
            }
        } else {
            keep.push(e.clone());
        }
    }
    let mut q = p.clone();
    q.e = keep;
    q.quotient_by(&pairs).expect("uniform labels cannot conflict").0
}

fn run_var(ex: &mut Exec, c: &VarCase) -> Result<(), Violation> {
    if !well_formed_case(c) {
        return Ok(()); // shrinking produced an ill-formed expression: nothing to check
    }
    let canonical: Vec<usize> = (0..c.steps.len()).collect();
    let mut orders: Vec<&Vec<usize>> = c.orders.iter().filter(|o| valid_order(c, o)).collect();
    if orders.is_empty() {
        orders.push(&canonical);
    }
    ex.probe_if(orders.len() >= 2 && orders[0] != orders[1], "two_different_linear_extensions");
    let n_ops = c.steps.iter().filter(|s| s.is_operator()).count();
    for (oi, order) in orders.iter().enumerate() {
        let ctx = format!("linear extension #{} {:?}", oi, order);
        let b = ex.lib("C19:build", || build_under(c, order, None))?;
        if let Some(inv) = &b.invariant {
            return viol("C19:builder:invariant-broken", format!("[{}] {}", ctx, inv));
        }
        let term = match b.result {
            Ok(t) => t,
            Err(()) => return viol("C19:build:failed-without-leak", format!("[{}] build returned Err although no variable handle outlives the builder", ctx)),
        };
        // one hyperedge per applied operator (plus one variable hyperedge per variable)
        let non_var = term.hypergraph.edges.iter().filter(|l| l.0 != VAR).count();
        if non_var != n_ops {
            return viol("C19:term:operator-count", format!("[{}] {} non-variable hyperedges for {} applied operators in {:?}", ctx, non_var, n_ops, term));
        }
        ex.probe_if(term.hypergraph.edges.len() - non_var == n_values(c), "one_variable_hyperedge_per_variable");
        // every value carries the type the expression gives it; every operator is the one the
        // signature prescribes for the operand types
        let (want_ty, mut want_ops) = expected_labels(c);
        for (v, e) in b.value_edges.iter().enumerate() {
            if e.0 >= term.hypergraph.adjacency.len() || term.hypergraph.edges[e.0].0 != VAR {
                continue; // variables are represented differently: nothing to read the type from
            }
            let adj = &term.hypergraph.adjacency[e.0];
            if let Some(n) = adj.sources.iter().chain(adj.targets.iter()).find(|n| term.hypergraph.nodes[n.0] != want_ty[v]) {
                return viol("C19:term:wrong-node-type", format!("[{}] value {} has type {} in the expression but node {:?} of its variable is labelled {} in {:?}", ctx, v, want_ty[v], n, term.hypergraph.nodes[n.0], term));
            }
        }
        let mut got_ops: Vec<L> = term.hypergraph.edges.iter().map(|l| l.0).filter(|l| *l != VAR).collect();
        got_ops.sort_unstable();
        want_ops.sort_unstable();
        if got_ops != want_ops {
            return viol("C19:term:wrong-operators", format!("[{}] the term's operator labels {:?} are not the ones the expression applies {:?}", ctx, got_ops, want_ops));
        }
        // interfaces: declared inputs and outputs, in order
        if term.sources.len() != c.in_labels.len() || term.targets.len() != c.outs.len() {
            return viol("C19:term:interface-arity", format!("[{}] interfaces {:?} -> {:?} for {} declared inputs and {} declared outputs", ctx, term.sources, term.targets, c.in_labels.len(), c.outs.len()));
        }
        let var_edge = |e: &EdgeId| -> Option<&open_hypergraphs::lax::Hyperedge> {
            if e.0 < term.hypergraph.adjacency.len() && term.hypergraph.edges[e.0].0 == VAR {
                Some(&term.hypergraph.adjacency[e.0])
            } else {
                None
            }
        };
        for (i, s) in term.sources.iter().enumerate() {
            let e = match var_edge(&b.input_edges[i]) {
                Some(e) => e,
                None => continue,
            };
            if !e.sources.contains(s) {
                return viol("C19:term:interface-order", format!("[{}] source interface position {} (node {:?}) does not feed the variable declared as input {} in {:?}", ctx, i, s, i, term));
            }
        }
        for (j, t) in term.targets.iter().enumerate() {
            let e = match var_edge(&b.out_edges[j]) {
                Some(e) => e,
                None => continue,
            };
            if !e.targets.contains(t) {
                return viol("C19:term:interface-order", format!("[{}] target interface position {} (node {:?}) does not read the variable declared as output {} in {:?}", ctx, j, t, j, term));
            }
        }
        // forgetting
        let strict_plain = strictify(&term);
        let f = ex.lib("C19:forget", || forget::forget(&term))?;
        let fm = ex.lib("C19:forget_monogamous", || forget::forget_monogamous(&term))?;
        let fp = ex.lib("C19:to_strict", || B::<VecKind>::from_dev(&f.clone().map_edges(|l| l.0).to_strict()))?;
        let fmp = ex.lib("C19:to_strict", || B::<VecKind>::from_dev(&fm.clone().map_edges(|l| l.0).to_strict()))?;
        let fp = fp.map_err(|e| Violation { class: "C19:forget:ill-formed".into(), detail: e })?;
        let fmp = fmp.map_err(|e| Violation { class: "C19:forget_monogamous:ill-formed".into(), detail: e })?;
        expect_iso(ex, &fp, &forget_ref(&strict_plain, false), "C19:forget:wrong-result", &ctx)?;
        expect_iso(ex, &fmp, &forget_ref(&strict_plain, true), "C19:forget_monogamous:wrong-result", &ctx)?;
        if fp.e.iter().any(|e| e.l == VAR) {
            return viol("C19:forget:variable-edge-left", format!("[{}] a Var-built term has uniform variables only, but {:?} still has a variable hyperedge", ctx, fp));
        }
        // meaning
        for input in &c.inputs {
            if input.len() != c.in_labels.len() {
                continue;
            }
            let want = direct(c, input);
            let orig = reference_eval_copies(&strict_plain, input);
            if orig.as_ref() != Some(&want) {
                return viol("C19:term:wrong-meaning", format!("[{}] the built term with variables read as copies evaluates to {:?}, the expression to {:?}, on {:?}; term {:?}", ctx, orig, want, input, strict_plain));
            }
            let got = ex.lib("C19:eval", || lib_eval(&f, input))?;
            if got.as_ref() != Some(&want) {
                return viol("C19:forget:meaning-changed", format!("[{}] forget(term) evaluates (strict::eval) to {:?}, the expression to {:?}, on {:?}; forgotten term {:?}", ctx, got, want, input, fp));
            }
            let gotm = reference_eval_copies(&fmp, input);
            if gotm.as_ref() != Some(&want) {
                return viol("C19:forget_monogamous:meaning-changed", format!("[{}] forget_monogamous(term) means {:?}, the expression {:?}, on {:?}", ctx, gotm, want, input));
            }
        }
        ex.probe("var_terms_built");
        // a leaked handle
        if let Some(v) = c.leak {
            let lb = ex.lib("C19:build", || build_under(c, order, Some(v)))?;
            if lb.result.is_ok() {
                return viol("C19:build:leak-not-reported", format!("[{}] a handle of value {} outlives the builder but build returned Ok", ctx, v));
            }
            if lb.recovery_failed {
                return viol("C19:build:state-not-handed-back", format!("[{}] after dropping the leaked handle the returned Rc is still shared", ctx));
            }
            match lb.recovered {
                Some(t) if t == term => ex.probe("leak_reported_and_recovered"),
                other => return viol("C19:build:handed-back-state-differs", format!("[{}] state handed back after a leak: {:?}; un-leaked run of the same schedule: {:?}", ctx, other, term)),
            }
        }
    }
    Ok(())
}

// --------------------------------------------------------------------------- forget on arbitrary lax terms

fn build_lax(t: &LaxTerm) -> OpenHypergraph<L, VL> {
    let mut f = OpenHypergraph::<L, VL>::empty();
    for l in &t.nodes {
        f.new_node(*l);
    }
    for (l, s, tt) in &t.edges {
        f.new_edge(VL(*l), Hyperedge { sources: s.iter().map(|x| NodeId(*x)).collect(), targets: tt.iter().map(|x| NodeId(*x)).collect() });
    }
    for (a, b) in &t.unify {
        f.unify(NodeId(*a), NodeId(*b));
    }
    f.sources = t.s.iter().map(|x| NodeId(*x)).collect();
    f.targets = t.t.iter().map(|x| NodeId(*x)).collect();
    f
}

fn lax_ok(t: &LaxTerm) -> bool {
    let n = t.nodes.len();
    t.edges.iter().all(|(_, s, tt)| s.iter().chain(tt.iter()).all(|v| *v < n)) && t.s.iter().chain(t.t.iter()).all(|v| *v < n) && t.unify.iter().all(|(a, b)| *a < n && *b < n && t.nodes[*a] == t.nodes[*b])
}

fn run_forget(ex: &mut Exec, t: &LaxTerm) -> Result<(), Violation> {
    if !lax_ok(t) {
        return Ok(());
    }
    let term = build_lax(t);
    let strict_plain = strictify(&term);
    let var_edges: Vec<&crate::plain::PEdge> = strict_plain.e.iter().filter(|e| e.l == VAR).collect();
    let uniform = |e: &crate::plain::PEdge| e.s.iter().chain(e.t.iter()).all(|v| strict_plain.w[*v] == strict_plain.w[*e.s.iter().chain(e.t.iter()).next().unwrap()]);
    ex.probe_if(var_edges.iter().any(|e| e.s.is_empty() && e.t.len() >= 2 && !uniform(e)), "sourceless_var_with_differently_labelled_targets");
    ex.probe_if(var_edges.iter().any(|e| !uniform(e)), "non_uniform_var_edge");
    ex.probe_if(var_edges.iter().any(|e| e.s.is_empty() && e.t.is_empty()), "var_edge_without_incident_nodes");
    ex.probe_if(var_edges.iter().any(|e| e.s.len() + e.t.len() >= 3 && uniform(e)), "uniform_var_edge_arity_three_or_more");
    for (name, only) in [("forget", false), ("forget_monogamous", true)] {
        let f = ex.lib(&format!("C19:{}", name), || if only { forget::forget_monogamous(&term) } else { forget::forget(&term) })?;
        let fp = ex.lib("C19:to_strict", || B::<VecKind>::from_dev(&f.clone().map_edges(|l| l.0).to_strict()))?;
        let fp = fp.map_err(|e| Violation { class: format!("C19:{}:ill-formed", name), detail: e })?;
        let want = forget_ref(&strict_plain, only);
        if fp.src_type() != strict_plain.src_type() || fp.tgt_type() != strict_plain.tgt_type() {
            return viol(&format!("C19:{}:type-changed", name), format!("type {:?} -> {:?} became {:?} -> {:?} for {:?}", strict_plain.src_type(), strict_plain.tgt_type(), fp.src_type(), fp.tgt_type(), t));
        }
        expect_iso(ex, &fp, &want, &format!("C19:{}:wrong-result", name), "arbitrary lax term")?;
    }
    ex.probe("lax_terms_forgotten");
    Ok(())
}

// --------------------------------------------------------------------------- generation

fn gen_var_case(r: &mut Rng, tier: Tier) -> VarCase {
    let nin = r.range(1, 3);
    let in_labels: Vec<L> = (0..nin).map(|_| r.below(3) as L).collect();
    let max_steps = if tier == Tier::Thorough { 12 } else { 8 };
    let n_steps = if r.chance(1, if tier == Tier::Thorough { 25 } else { 120 }) { r.range(12, 40) } else { r.range(1, max_steps) };
    let mut steps = vec![];
    let mut nv = nin;
    let mut n_clones = 0;
    for _ in 0..n_steps {
        let s = match r.below(12) {
            0..=4 => Step::Bin { op: r.below(9) as u8, a: r.below(nv), b: r.below(nv) },
            5..=6 => Step::Un { op: r.below(2) as u8, a: r.below(nv) },
            7 => Step::Const { c: r.below(7) as u64, label: r.below(3) as L },
            8..=9 => Step::Gen { code: r.below(4) as u8, args: (0..r.below(4)).map(|_| r.below(nv)).collect(), out_labels: (0..r.below(4)).map(|_| r.below(3) as L).collect() },
            10 => {
                n_clones += 1;
                Step::CloneHandle { v: r.below(nv) }
            }
            _ => Step::DropClone { k: r.below(n_clones + 1) },
        };
        nv += s.produces();
        steps.push(s);
    }
    let mut c = VarCase { in_labels, steps, orders: vec![], outs: (0..r.range(0, 3)).map(|_| r.below(nv)).collect(), leak: if r.chance(1, 5) { Some(r.below(nv)) } else { None }, inputs: vec![] };
    // linear extensions: random topological orders (DropClone keeps its canonical position relative
    // to CloneHandle steps, everything else only respects data dependencies)
    for _ in 0..r.range(1, 3) {
        c.orders.push(random_extension(r, &c));
    }
    let specials = [0u64, 1, 2, 63, 64, 1 << 63, u64::MAX];
    for _ in 0..r.range(1, 2) {
        c.inputs.push((0..nin).map(|_| if r.chance(1, 3) { *r.pick(&specials) } else { r.next() }).collect());
    }
    c
}

fn random_extension(r: &mut Rng, c: &VarCase) -> Vec<usize> {
    let n = c.steps.len();
    let base = value_bases(c);
    let mut defined = vec![false; n_values(c)];
    for v in 0..c.in_labels.len() {
        defined[v] = true;
    }
    let mut done = vec![false; n];
    let mut order = vec![];
    while order.len() < n {
        let ready: Vec<usize> = (0..n)
            .filter(|i| !done[*i] && c.steps[*i].reads().iter().all(|v| defined[*v]))
            .filter(|i| match c.steps[*i] {
                // handle bookkeeping steps keep their relative order
                Step::CloneHandle { .. } | Step::DropClone { .. } => (0..*i).all(|j| done[j] || !matches!(c.steps[j], Step::CloneHandle { .. } | Step::DropClone { .. })),
                _ => true,
            })
            .collect();
        let i = *r.pick(&ready);
        done[i] = true;
        for k in 0..c.steps[i].produces() {
            defined[base[i] + k] = true;
        }
        order.push(i);
    }
    order
}

fn gen_lax_term(r: &mut Rng) -> LaxTerm {
    let n = if r.chance(1, 100) { r.range(7, 30) } else { r.range(0, 6) };
    let labels = r.range(1, 3);
    let nodes: Vec<L> = (0..n).map(|_| r.below(labels) as L).collect();
    let mut edges = vec![];
    for _ in 0..r.range(0, 4) {
        let is_var = r.chance(2, 3);
        let l = if is_var { VAR } else { bin_label(r.below(3) as L, 0, 0) };
        let side = |r: &mut Rng, uniform_label: Option<L>| -> Vec<usize> {
            if n == 0 {
                return vec![];
            }
            let k = r.below(4);
            match uniform_label {
                Some(ul) => {
                    let same: Vec<usize> = (0..n).filter(|v| nodes[*v] == ul).collect();
                    if same.is_empty() {
                        vec![]
                    } else {
                        (0..k).map(|_| *r.pick(&same)).collect()
                    }
                }
                None => (0..k).map(|_| r.below(n)).collect(),
            }
        };
        let uni = if is_var && r.chance(1, 2) && n > 0 { Some(nodes[r.below(n)]) } else { None };
        let s = if r.chance(1, 4) { vec![] } else { side(r, uni) };
        let t = side(r, uni);
        edges.push((l, s, t));
    }
    let mut unify = vec![];
    for _ in 0..r.below(3) {
        if n > 0 {
            let a = r.below(n);
            let same: Vec<usize> = (0..n).filter(|v| nodes[*v] == nodes[a]).collect();
            unify.push((a, *r.pick(&same)));
        }
    }
    let iface = |r: &mut Rng| -> Vec<usize> {
        if n == 0 {
            vec![]
        } else {
            (0..r.below(4)).map(|_| r.below(n)).collect()
        }
    };
    let s = iface(r);
    let t = iface(r);
    LaxTerm { nodes, edges, unify, s, t }
}

impl Check for C19 {
    type Case = Case;
    const ID: &'static str = "C19";
    fn runs(tier: Tier) -> u64 {
        crate::runner::scaled(800_000, tier)
    }
    fn generate(r: &mut Rng, tier: Tier) -> Case {
        if r.chance(3, 5) {
            Case::Var(gen_var_case(r, tier))
        } else {
            Case::Forget(gen_lax_term(r))
        }
    }
    fn execute(c: &Case, ex: &mut Exec) -> Result<(), Violation> {
        let mut fp = Fp::new();
        fp.add(crate::rng::hash_str(&format!("{:?}", c)));
        ex.workload_fp = fp.0;
        match c {
            Case::Var(v) => {
                ex.nontrivial = v.steps.iter().any(|s| s.is_operator());
                ex.probe_if(v.leak.is_some(), "leak_cases");
                ex.probe_if(v.steps.iter().any(|s| matches!(s, Step::Gen { out_labels, .. } if out_labels.len() != 1)), "operation_with_zero_or_many_results");
                ex.probe_if(v.steps.iter().any(|s| matches!(s, Step::CloneHandle { .. })), "handle_cloned");
                run_var(ex, v)
            }
            Case::Forget(t) => {
                ex.nontrivial = t.edges.iter().any(|e| e.0 == VAR);
                run_forget(ex, t)
            }
        }
    }
    fn shrink(c: &Case) -> Vec<Case> {
        match c {
            Case::Var(v) => {
                let mut out = vec![];
                if v.orders.len() > 1 {
                    for i in 0..v.orders.len() {
                        out.push(Case::Var(VarCase { orders: vec![v.orders[i].clone()], ..v.clone() }));
                    }
                }
                if !v.orders.is_empty() {
                    out.push(Case::Var(VarCase { orders: vec![], ..v.clone() }));
                }
                if v.leak.is_some() {
                    out.push(Case::Var(VarCase { leak: None, ..v.clone() }));
                }
                if v.inputs.len() > 1 {
                    out.push(Case::Var(VarCase { inputs: vec![v.inputs[0].clone()], ..v.clone() }));
                }
                // drop the last step (later steps never depend on it); orders fall back to canonical
                if !v.steps.is_empty() {
                    let mut d = v.clone();
                    d.steps.pop();
                    d.orders = vec![];
                    let nv = n_values(&d);
                    d.outs.retain(|o| *o < nv);
                    if d.leak.map_or(false, |l| l >= nv) {
                        d.leak = Some(0);
                    }
                    out.push(Case::Var(d));
                }
                // replace a step that produces exactly one value by a constant (keeps value ids stable)
                for i in 0..v.steps.len() {
                    if v.steps[i].produces() == 1 && !matches!(v.steps[i], Step::Const { .. }) {
                        let mut d = v.clone();
                        d.steps[i] = Step::Const { c: 1, label: 0 };
                        out.push(Case::Var(d));
                    }
                    if matches!(v.steps[i], Step::CloneHandle { .. } | Step::DropClone { .. }) {
                        let mut d = v.clone();
                        d.steps.remove(i);
                        d.orders = vec![];
                        out.push(Case::Var(d));
                    }
                }
                for i in 0..v.outs.len() {
                    let mut d = v.clone();
                    d.outs.remove(i);
                    out.push(Case::Var(d));
                }
                for i in 0..v.inputs.len() {
                    for j in 0..v.inputs[i].len() {
                        if v.inputs[i][j] > 1 {
                            let mut d = v.clone();
                            d.inputs[i][j] = 1;
                            out.push(Case::Var(d));
                        }
                    }
                }
                out
            }
            Case::Forget(t) => {
                let mut out = vec![];
                for i in 0..t.edges.len() {
                    let mut d = t.clone();
                    d.edges.remove(i);
                    out.push(Case::Forget(d));
                }
                for i in 0..t.unify.len() {
                    let mut d = t.clone();
                    d.unify.remove(i);
                    out.push(Case::Forget(d));
                }
                if !t.s.is_empty() {
                    let mut d = t.clone();
                    d.s.pop();
                    out.push(Case::Forget(d));
                }
                if !t.t.is_empty() {
                    let mut d = t.clone();
                    d.t.pop();
                    out.push(Case::Forget(d));
                }
                for i in 0..t.edges.len() {
                    for side in 0..2 {
                        let len = if side == 0 { t.edges[i].1.len() } else { t.edges[i].2.len() };
                        for k in 0..len {
                            let mut d = t.clone();
                            if side == 0 {
                                d.edges[i].1.remove(k);
                            } else {
                                d.edges[i].2.remove(k);
                            }
                            out.push(Case::Forget(d));
                        }
                    }
                }
                // drop an unreferenced last node
                if let Some(last) = t.nodes.len().checked_sub(1) {
                    let used = t.edges.iter().any(|(_, s, tt)| s.contains(&last) || tt.contains(&last)) || t.s.contains(&last) || t.t.contains(&last) || t.unify.iter().any(|(a, b)| *a == last || *b == last);
                    if !used {
                        let mut d = t.clone();
                        d.nodes.pop();
                        out.push(Case::Forget(d));
                    }
                }
                out
            }
        }
    }
    fn rule() -> &'static str {
        "3/5 of the runs: a generated expression DAG (1-3 declared input variables with labels from {0,1,2}; 1-8/12 steps among the operator overloads + * - & | ^ << >> / - !, constants through fn_operation, operation() with 0-3 arguments and 0-3 results, handle clone, handle drop), built through var::build under 1-3 scheduler-chosen linear extensions of its data dependencies (the order in which independent sub-expressions hit the shared Rc<RefCell> builder), with builder invariants checked on the shared state after every step; in 1/5 of them a handle is leaked outside the closure. 2/5 of the runs: an arbitrary well-formed lax term with variable-labelled hyperedges of arity 0-3/0-3 and uniform or mixed incident labels, label-consistent pending unifications and arbitrary interfaces, for forget / forget_monogamous. The test signature is multi-sorted (the operator label depends on both operand types) and every binary operator is non-commutative. Oracles: one non-variable hyperedge per applied operator, exactly the operator labels and node types the expression prescribes, interfaces in declared order; the term (variables read as copies, reference interpreter), forget(term) (strict::eval) and forget_monogamous(term) all evaluate to the direct evaluation of the expression on 1-2 input vectors, for every explored linear extension; build is Err iff a handle was leaked, and then hands back exactly the state of the un-leaked run; forget results isomorphic to the reference (uniform variable hyperedges merged / removed, everything else intact), same type, no panic. Non-trivial iff an operator was applied / a variable hyperedge is present; distinct = distinct case fingerprints."
    }
    fn assumptions() -> Vec<&'static str> {
        vec![
            "input variables are declared distinct (a node written by two input positions is outside C16's evaluation precondition)",
            "forget only sees terms whose pending unifications are label-consistent",
            "evaluation of forgotten arbitrary lax terms is not compared (merging can create multi-writer nodes, outside the evaluation precondition); there the oracle is isomorphism with the reference + type",
            "no device-schedule dimension: lax and var are hard-wired to VecKind; the schedule here is the linear extension of builder steps plus handle lifetimes",
        ]
    }
    fn required_probes() -> Vec<&'static str> {
        vec!["var_terms_built", "two_different_linear_extensions", "leak_reported_and_recovered", "lax_terms_forgotten", "sourceless_var_with_differently_labelled_targets", "non_uniform_var_edge", "var_edge_without_incident_nodes", "uniform_var_edge_arity_three_or_more", "operation_with_zero_or_many_results", "handle_cloned"]
    }
    fn components() -> serde_json::Value {
        json!({
            "real_code": ["open_hypergraphs::lax::var (Var, build, operation, fn_operation, operator impls), lax::var::forget (Forget, ForgetMonogamous through dyn_functor and the strict functor machinery on VecKind), lax to_strict/quotient, strict::eval::eval for the forgotten terms"],
            "stubs": ["expression DAG + direct evaluator, reference interpreter with variables as copies, reference forgetting on the plain model, isomorphism procedure"],
            "schedule": "linear extension of the builder steps (scheduler-chosen), handle clones/drops/leaks",
        })
    }
}
