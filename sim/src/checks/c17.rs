//! C17 — acyclicity, monogamy and degree queries decide their definitions, totally
//! (for every well-formed diagram, in debug and release builds alike).

use super::components_s1;
use crate::dev::B;
use crate::dev_impl;
use crate::graphref::{self, launch_budget};
use crate::plain::{edge, shrink_plain, Plain, L};
use crate::rng::Rng;
use crate::runner::{viol, Check, Exec, Tier, Violation, PROFILE};
use crate::simkind::SimKind;
use open_hypergraphs::array::vec::VecKind;
use serde::{Deserialize, Serialize};

#[derive(Serialize, Deserialize, Clone, Debug)]
pub struct Case {
    pub f: Plain,
    pub schedules: usize,
}

pub struct C17;

#[derive(Debug, PartialEq, Clone)]
pub struct Obs {
    pub acyclic_open: bool,
    pub acyclic_h: bool,
    pub monogamous: bool,
    pub in_deg: Vec<usize>,
    pub out_deg: Vec<usize>,
}

dev_impl! {
    pub fn c17_acyclic(f: &Plain) -> (bool, bool) {
        let d = Self::to_dev(f);
        (d.is_acyclic(), d.h.is_acyclic())
    }
    pub fn c17_monogamous(f: &Plain) -> bool {
        Self::to_dev(f).is_monogamous()
    }
    pub fn c17_degrees(f: &Plain) -> (Vec<usize>, Vec<usize>) {
        let d = Self::to_dev(f);
        let n = f.w.len();
        ((0..n).map(|v| d.h.in_degree(v)).collect(), (0..n).map(|v| d.h.out_degree(v)).collect())
    }
}

macro_rules! observe {
    ($ex:expr, $K:ty, $f:expr, $budget:expr) => {{
        let (ao, ah) = $ex.lib_budget("C17:is_acyclic", $budget, || B::<$K>::c17_acyclic($f))?;
        let mono = $ex.lib_budget("C17:is_monogamous", $budget, || B::<$K>::c17_monogamous($f))?;
        let (i, o) = $ex.lib_budget("C17:degree", $budget, || B::<$K>::c17_degrees($f))?;
        Obs { acyclic_open: ao, acyclic_h: ah, monogamous: mono, in_deg: i, out_deg: o }
    }};
}

fn judge(f: &Plain, cfg: &str, o: &Obs) -> Result<(), Violation> {
    let want_acyclic = graphref::node_acyclic(f);
    if o.acyclic_open != want_acyclic || o.acyclic_h != want_acyclic {
        return viol("C17:is_acyclic:wrong-answer", format!("[{} {}] is_acyclic = {} / {} (open / hypergraph) but by depth-first search a node {} reach itself in {:?}", cfg, PROFILE, o.acyclic_open, o.acyclic_h, if want_acyclic { "cannot" } else { "can" }, f));
    }
    let want_mono = graphref::monogamous(f);
    if o.monogamous != want_mono {
        return viol("C17:is_monogamous:wrong-answer", format!("[{} {}] is_monogamous = {} but counting gives {} for {:?}", cfg, PROFILE, o.monogamous, want_mono, f));
    }
    for v in 0..f.w.len() {
        if o.in_deg[v] != graphref::in_degree(f, v) || o.out_deg[v] != graphref::out_degree(f, v) {
            return viol("C17:degree:wrong-count", format!("[{} {}] node {}: in/out degree {} / {} but counting occurrences gives {} / {} in {:?}", cfg, PROFILE, v, o.in_deg[v], o.out_deg[v], graphref::in_degree(f, v), graphref::out_degree(f, v), f));
        }
    }
    Ok(())
}

/// monogamous diagrams by construction, then small damage in some of them
fn gen_monogamous(r: &mut Rng) -> Plain {
    let n_in = r.range(0, 3);
    let mut w: Vec<L> = vec![0; n_in];
    let mut dangling: Vec<usize> = (0..n_in).collect(); // written, not yet read
    let mut e = vec![];
    for _ in 0..r.range(0, 5) {
        let ks = r.range(0, dangling.len().min(3));
        let mut s = vec![];
        for _ in 0..ks {
            let i = r.below(dangling.len());
            s.push(dangling.swap_remove(i));
        }
        let kt = r.range(0, 3);
        let mut t = vec![];
        for _ in 0..kt {
            w.push(0);
            t.push(w.len() - 1);
            dangling.push(w.len() - 1);
        }
        e.push(edge(r.below(3) as L, s, t));
    }
    r.shuffle(&mut dangling);
    let s: Vec<usize> = (0..n_in).collect();
    let mut p = Plain { w, e, s, t: dangling };
    match r.below(8) {
        0 => p.w.push(0), // an isolated node: neither on an interface nor incident to a hyperedge
        1 if !p.t.is_empty() => {
            p.t.pop(); // a dangling node
        }
        2 if !p.s.is_empty() => {
            let v = p.s[0];
            p.s.push(v); // non-injective interface
        }
        3 if !p.e.is_empty() && !p.w.is_empty() => {
            let v = r.below(p.w.len());
            let i = r.below(p.e.len());
            p.e[i].s.push(v); // extra reader
        }
        _ => {}
    }
    p.random_renumbering(r)
}

impl Check for C17 {
    type Case = Case;
    const ID: &'static str = "C17";
    fn runs(tier: Tier) -> u64 {
        crate::runner::scaled(2000000, tier)
    }
    fn generate(r: &mut Rng, tier: Tier) -> Case {
        let big = tier == Tier::Thorough && r.chance(1, 3);
        let f = match r.below(10) {
            0..=2 => graphref::gen_dense(r, big),
            3..=4 => graphref::gen_layered(r, big),
            5..=7 => gen_monogamous(r),
            _ => {
                let c = crate::gen::draw_cfg(r, tier);
                crate::gen::gen_plain(r, &c, None)
            }
        };
        Case { f, schedules: r.range(1, 3) }
    }
    fn execute(c: &Case, ex: &mut Exec) -> Result<(), Violation> {
        let f = &c.f;
        ex.workload_fp = f.fingerprint();
        ex.nontrivial = f.n() >= 1;
        ex.probe_if(f.n() >= 64 || f.m() >= 64 || f.s.len() >= 64 || f.t.len() >= 64, "size_64_or_more");
        ex.probe_if(f.n() >= 256 || f.m() >= 256 || f.s.len() >= 256 || f.t.len() >= 256, "size_256_or_more");
        let budget = launch_budget(f);
        let touched = |v: usize| f.s.contains(&v) || f.t.contains(&v) || f.e.iter().any(|e| e.s.contains(&v) || e.t.contains(&v));
        ex.probe_if((0..f.n()).any(|v| !touched(v)), "isolated_node");
        ex.probe_if(graphref::monogamous(f) && f.m() >= 1, "monogamous_with_operations");
        ex.probe_if(!graphref::node_acyclic(f), "cyclic");
        ex.probe_if(graphref::node_acyclic(f) && f.m() >= 2, "acyclic_two_or_more_ops");
        ex.probe_if(node_multiplicity(f) >= 3, "parallel_connections_three_or_more");
        ex.probe_if(f.e.iter().any(|e| e.s.iter().any(|v| e.t.contains(v))), "self_loop");

        ex.seg_control();
        let o = observe!(ex, SimKind, f, budget);
        judge(f, "sim/control", &o)?;
        ex.seg_vec();
        let ov = observe!(ex, VecKind, f, budget);
        judge(f, "vec", &ov)?;
        for _ in 0..c.schedules {
            let pol = ex.seg_perturbed();
            let o = observe!(ex, SimKind, f, budget);
            let name = ex.cfg_name(&pol);
            judge(f, &name, &o)?;
        }
        Ok(())
    }
    fn shrink(c: &Case) -> Vec<Case> {
        let mut out = vec![];
        if c.schedules > 1 {
            out.push(Case { schedules: 1, ..c.clone() });
        }
        for f in shrink_plain(&c.f) {
            out.push(Case { f, ..c.clone() });
        }
        out
    }
    fn rule() -> &'static str {
        "Each run draws one well-formed diagram: 30% dense multigraph-like (same node repeated up to 6 times in a list), 20% layered with optional back connection, 30% monogamous by construction with optional damage (isolated node, dangling node, non-injective interface, extra reader), 20% generic; is_acyclic (open hypergraph and hypergraph), is_monogamous and in/out degree of every node run on sim/control, vec and 1-3 perturbed schedules, in both build profiles (debug assertions + overflow checks on / off). Oracle: depth-first search reachability, counting definitions; a panic or a launch-budget overrun is a violation (totality). Non-trivial iff >= 1 node; distinct = distinct (diagram fingerprint, device decision fingerprint)."
    }
    fn assumptions() -> Vec<&'static str> {
        vec![
            "monogamy is read as: both interfaces injective and for every node in-degree + (number of input positions) = 1 and out-degree + (number of output positions) = 1 (the reading pinned by the existing test test_is_monogamous_false_boundary_has_degree)",
            "degree queries are only asked for node indices in range",
        ]
    }
    fn required_probes() -> Vec<&'static str> {
        vec!["isolated_node", "monogamous_with_operations", "cyclic", "acyclic_two_or_more_ops", "parallel_connections_three_or_more", "self_loop"]
    }
    fn components() -> serde_json::Value {
        components_s1()
    }
}

/// largest number of parallel node-to-node connections (u in sources, v in targets, with multiplicity)
pub fn node_multiplicity(f: &Plain) -> usize {
    let n = f.w.len();
    let mut best = 0;
    for u in 0..n {
        for v in 0..n {
            let k: usize = f.e.iter().map(|e| e.s.iter().filter(|x| **x == u).count() * e.t.iter().filter(|x| **x == v).count()).sum();
            best = best.max(k);
        }
    }
    best
}
