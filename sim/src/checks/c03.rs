//! C03 — symmetric monoidal category laws hold up to genuine isomorphism.
//!
//! Both sides of each law are computed through the public API on the same device and compared
//! with the isomorphism decision procedure.  The two sides are different computations, so under a
//! perturbed schedule their node numberings have no reason to agree.

use super::{components_s1, expect_iso};
use crate::dev::{B, OH};
use crate::dev_impl;
use crate::gen;
use crate::plain::{shrink_plain, Plain, L};
use crate::rng::Rng;
use crate::runner::{viol, Check, Exec, Tier, Violation};
use crate::simkind::SimKind;
use open_hypergraphs::array::vec::VecKind;
use open_hypergraphs::category::{Arrow, Monoidal, SymmetricMonoidal};
use serde::{Deserialize, Serialize};

#[derive(Serialize, Deserialize, Clone, Debug)]
pub struct Case {
    /// composable triple f ; g ; h
    pub f: Plain,
    pub g: Plain,
    pub h: Plain,
    /// a second composable pair p ; q for the interchange law, p also serves as second argument of
    /// the symmetry's naturality
    pub p: Plain,
    pub q: Plain,
    /// object lists for self-inverse symmetry and the hexagons
    pub a: Vec<L>,
    pub b: Vec<L>,
    pub c: Vec<L>,
    pub schedules: usize,
}

pub struct C03;

pub type Law = (&'static str, Plain, Plain);

dev_impl! {
    fn c03_plain(name: &str, f: &OH<K>) -> Result<Plain, String> {
        Self::from_dev(f).map_err(|e| format!("{}: ill-formed intermediate result: {}", name, e))
    }
    fn c03_comp(name: &str, f: &OH<K>, g: &OH<K>) -> Result<OH<K>, String> {
        f.compose(g).ok_or_else(|| format!("{}: compose returned None although the types match", name))
    }
    pub fn c03_id(ty: &[L]) -> OH<K> {
        OH::<K>::identity(Self::sf(ty.to_vec()))
    }
    pub fn c03_twist(a: &[L], b: &[L]) -> OH<K> {
        <OH<K> as SymmetricMonoidal>::twist(Self::sf(a.to_vec()), Self::sf(b.to_vec()))
    }

    /// evaluate every law whose typing precondition holds on the plain inputs
    pub fn c03_laws(c: &Case) -> Result<Vec<Law>, String> {
        let mut out: Vec<Law> = vec![];
        let (f, g, h, p, q) = (Self::to_dev(&c.f), Self::to_dev(&c.g), Self::to_dev(&c.h), Self::to_dev(&c.p), Self::to_dev(&c.q));
        let fg_ok = c.f.tgt_type() == c.g.src_type();
        let gh_ok = c.g.tgt_type() == c.h.src_type();
        let pq_ok = c.p.tgt_type() == c.q.src_type();
        if fg_ok && gh_ok {
            let l = Self::c03_comp("assoc", &Self::c03_comp("assoc", &f, &g)?, &h)?;
            let r = Self::c03_comp("assoc", &f, &Self::c03_comp("assoc", &g, &h)?)?;
            out.push(("associativity", Self::c03_plain("assoc", &l)?, Self::c03_plain("assoc", &r)?));
        }
        {
            let idl = Self::c03_id(&c.f.src_type());
            let idr = Self::c03_id(&c.f.tgt_type());
            out.push(("left-unit", Self::c03_plain("unit", &Self::c03_comp("left-unit", &idl, &f)?)?, c.f.clone()));
            out.push(("right-unit", Self::c03_plain("unit", &Self::c03_comp("right-unit", &f, &idr)?)?, c.f.clone()));
        }
        if fg_ok && pq_ok {
            let l = Self::c03_comp("interchange", &f, &g)?.tensor(&Self::c03_comp("interchange", &p, &q)?);
            let r = Self::c03_comp("interchange", &f.tensor(&p), &g.tensor(&q))?;
            out.push(("interchange", Self::c03_plain("interchange", &l)?, Self::c03_plain("interchange", &r)?));
        }
        {
            // naturality in both arguments at once: (f ⊗ p) ; σ(B_f, B_p) = σ(A_f, A_p) ; (p ⊗ f)
            let l = Self::c03_comp("twist-natural", &f.tensor(&p), &Self::c03_twist(&c.f.tgt_type(), &c.p.tgt_type()))?;
            let r = Self::c03_comp("twist-natural", &Self::c03_twist(&c.f.src_type(), &c.p.src_type()), &p.tensor(&f))?;
            out.push(("twist-natural-both", Self::c03_plain("twist", &l)?, Self::c03_plain("twist", &r)?));
            // first argument only, second argument only (other side an identity on c)
            let ic = Self::c03_id(&c.c);
            let l = Self::c03_comp("twist-natural-1", &f.tensor(&ic), &Self::c03_twist(&c.f.tgt_type(), &c.c))?;
            let r = Self::c03_comp("twist-natural-1", &Self::c03_twist(&c.f.src_type(), &c.c), &ic.tensor(&f))?;
            out.push(("twist-natural-first", Self::c03_plain("twist", &l)?, Self::c03_plain("twist", &r)?));
            let l = Self::c03_comp("twist-natural-2", &ic.tensor(&f), &Self::c03_twist(&c.c, &c.f.tgt_type()))?;
            let r = Self::c03_comp("twist-natural-2", &Self::c03_twist(&c.c, &c.f.src_type()), &f.tensor(&ic))?;
            out.push(("twist-natural-second", Self::c03_plain("twist", &l)?, Self::c03_plain("twist", &r)?));
        }
        {
            // σ(a,b) ; σ(b,a) = id(a ● b)
            let l = Self::c03_comp("twist-inverse", &Self::c03_twist(&c.a, &c.b), &Self::c03_twist(&c.b, &c.a))?;
            let ab: Vec<L> = c.a.iter().chain(c.b.iter()).copied().collect();
            out.push(("twist-self-inverse", Self::c03_plain("twist", &l)?, Self::c03_plain("twist", &Self::c03_id(&ab))?));
        }
        {
            // hexagons
            let bc: Vec<L> = c.b.iter().chain(c.c.iter()).copied().collect();
            let ab: Vec<L> = c.a.iter().chain(c.b.iter()).copied().collect();
            let l = Self::c03_twist(&c.a, &bc);
            let r = Self::c03_comp("hexagon-1", &Self::c03_twist(&c.a, &c.b).tensor(&Self::c03_id(&c.c)), &Self::c03_id(&c.b).tensor(&Self::c03_twist(&c.a, &c.c)))?;
            out.push(("hexagon-1", Self::c03_plain("hexagon", &l)?, Self::c03_plain("hexagon", &r)?));
            let l = Self::c03_twist(&ab, &c.c);
            let r = Self::c03_comp("hexagon-2", &Self::c03_id(&c.a).tensor(&Self::c03_twist(&c.b, &c.c)), &Self::c03_twist(&c.a, &c.c).tensor(&Self::c03_id(&c.b)))?;
            out.push(("hexagon-2", Self::c03_plain("hexagon", &l)?, Self::c03_plain("hexagon", &r)?));
        }
        Ok(out)
    }
}

fn judge(ex: &mut Exec, cfg: &str, r: Result<Result<Vec<Law>, String>, Violation>) -> Result<(), Violation> {
    match r? {
        Err(e) => viol("C03:law:undefined-or-ill-formed", format!("[{}] {}", cfg, e)),
        Ok(laws) => {
            for (name, l, r) in laws {
                expect_iso(ex, &l, &r, &format!("C03:{}", name), cfg)?;
                ex.probe(match name {
                    "associativity" => "law_associativity",
                    "interchange" => "law_interchange",
                    "hexagon-1" => "law_hexagon",
                    "twist-natural-both" => "law_twist_natural",
                    _ => "law_other",
                });
            }
            Ok(())
        }
    }
}

impl Check for C03 {
    type Case = Case;
    const ID: &'static str = "C03";
    fn runs(tier: Tier) -> u64 {
        crate::runner::scaled(300000, tier)
    }
    fn generate(r: &mut Rng, tier: Tier) -> Case {
        let mut c = gen::draw_cfg(r, tier);
        // triples are kept small so that the isomorphism search stays cheap
        c.max_extra_nodes = c.max_extra_nodes.min(if c.huge { 90 } else if c.large { 14 } else { 4 });
        c.max_edges = c.max_edges.min(if c.huge { 70 } else if c.large { 8 } else { 4 });
        let (f, g, h) = gen::gen_triple(r, &c);
        let (p, q) = gen::gen_pair(r, &c);
        let mut small = c.clone();
        small.max_iface = small.max_iface.min(3);
        Case { f, g, h, p, q, a: gen::gen_type(r, &small), b: gen::gen_type(r, &small), c: gen::gen_type(r, &small), schedules: r.range(1, 3) }
    }
    fn execute(c: &Case, ex: &mut Exec) -> Result<(), Violation> {
        let mut fp = crate::rng::Fp::new();
        for p in [&c.f, &c.g, &c.h, &c.p, &c.q] {
            fp.add(p.fingerprint());
        }
        for t in [&c.a, &c.b, &c.c] {
            fp.add(t.len() as u64);
            for l in t {
                fp.add(*l as u64);
            }
        }
        ex.workload_fp = fp.0;
        ex.nontrivial = c.f.n() + c.g.n() + c.h.n() > 0 && c.f.m() + c.g.m() + c.h.m() + c.f.t.len() + c.g.t.len() > 0;
        ex.probe_if(c.f.n() >= 64 || c.f.m() >= 64 || c.f.s.len() >= 64 || c.f.t.len() >= 64, "size_64_or_more");
        ex.probe_if(c.f.n() >= 256 || c.f.m() >= 256 || c.f.s.len() >= 256 || c.f.t.len() >= 256, "size_256_or_more");
        ex.probe_if(c.f.e.iter().any(|e| e.s.iter().any(|v| e.t.contains(v))), "self_looping_edge_cyclic");
        ex.probe_if(!c.a.is_empty() && !c.b.is_empty() && !c.c.is_empty(), "hexagon_all_objects_nonempty");

        ex.seg_control();
        let r = ex.lib("C03:laws", || B::<SimKind>::c03_laws(c));
        judge(ex, "sim/control", r)?;
        ex.seg_vec();
        let r = ex.lib("C03:laws", || B::<VecKind>::c03_laws(c));
        judge(ex, "vec", r)?;
        for _ in 0..c.schedules {
            let pol = ex.seg_perturbed();
            let r = ex.lib("C03:laws", || B::<SimKind>::c03_laws(c));
            let name = ex.cfg_name(&pol);
            judge(ex, &name, r)?;
        }
        Ok(())
    }
    fn shrink(c: &Case) -> Vec<Case> {
        let mut out = vec![];
        if c.schedules > 1 {
            out.push(Case { schedules: 1, ..c.clone() });
        }
        // whole operands to the empty diagram / empty type first
        for (i, p) in [&c.f, &c.g, &c.h, &c.p, &c.q].iter().enumerate() {
            if p.size() > 0 {
                let mut d = c.clone();
                *(match i { 0 => &mut d.f, 1 => &mut d.g, 2 => &mut d.h, 3 => &mut d.p, _ => &mut d.q }) = Plain::empty();
                out.push(d);
            }
        }
        for i in 0..3 {
            let mut d = c.clone();
            let t = match i { 0 => &mut d.a, 1 => &mut d.b, _ => &mut d.c };
            if !t.is_empty() {
                t.pop();
                out.push(d);
            }
        }
        for f in shrink_plain(&c.f) {
            out.push(Case { f, ..c.clone() });
        }
        for g in shrink_plain(&c.g) {
            out.push(Case { g, ..c.clone() });
        }
        for h in shrink_plain(&c.h) {
            out.push(Case { h, ..c.clone() });
        }
        for p in shrink_plain(&c.p) {
            out.push(Case { p, ..c.clone() });
        }
        for q in shrink_plain(&c.q) {
            out.push(Case { q, ..c.clone() });
        }
        out
    }
    fn rule() -> &'static str {
        "Each run draws a composable triple (f,g,h), a composable pair (p,q) and three object lists (a,b,c); on each configuration (sim/control, vec, 1-3 perturbed schedules) both sides of: associativity, left/right unit, interchange, naturality of the symmetry (both arguments, first only, second only), self-inverse symmetry and both hexagons are computed through the public API and compared by the isomorphism procedure. Non-trivial iff the triple has at least one node and at least one hyperedge or identification; distinct = distinct (workload fingerprint, device decision fingerprint) pairs."
    }
    fn assumptions() -> Vec<&'static str> {
        vec![
            "the harness's isomorphism procedure decides C03's notion of isomorphism (selftest: brute-force cross-check); undecided searches are counted and never flagged",
            "laws are compared side against side, not against the reference (C01 does that)",
            "operands <= ~8 nodes each",
        ]
    }
    fn required_probes() -> Vec<&'static str> {
        vec!["law_associativity", "law_interchange", "law_hexagon", "law_twist_natural", "self_looping_edge_cyclic", "hexagon_all_objects_nonempty"]
    }
    fn components() -> serde_json::Value {
        components_s1()
    }
}
