//! C15 — layering respects dependencies, is as shallow as possible, and flags cycles.

use super::components_s1;
use crate::dev::{Dev, B};
use crate::dev_impl;
use crate::graphref::{self, launch_budget, op_depths, op_successors, op_visited};
use crate::plain::{shrink_plain, Plain};
use crate::rng::Rng;
use crate::runner::{viol, Check, Exec, Tier, Violation};
use crate::simkind::SimKind;
use open_hypergraphs::array::vec::VecKind;
use open_hypergraphs::strict::layer::{layer, layered_operations};
use serde::{Deserialize, Serialize};

#[derive(Serialize, Deserialize, Clone, Debug)]
pub struct Case {
    pub f: Plain,
    pub schedules: usize,
}

pub struct C15;

/// what one configuration observed
#[derive(Debug, PartialEq)]
pub struct Obs {
    pub order: Vec<usize>,
    pub order_target: usize,
    pub unvisited: Vec<usize>,
    pub groups: Vec<Vec<usize>>,
    pub groups_unvisited: Vec<usize>,
}

dev_impl! {
    pub fn c15_layer(f: &Plain) -> Obs {
        let d = Self::to_dev(f);
        let (order, unv) = layer(&d);
        let (groups, gunv) = layered_operations(&d);
        Obs {
            order: K::unix(&order.table),
            order_target: order.target,
            unvisited: K::unix(&unv.into()),
            groups: groups.iter().map(|g| K::unix(g)).collect(),
            groups_unvisited: K::unix(&gunv),
        }
    }
}

/// validity of a layer assignment for the visited operations (C15's oracle; also used by C20)
pub fn check_layering(f: &Plain, visited: &[bool], layer_of: &dyn Fn(usize) -> Option<usize>, what: &str, cfg: &str) -> Result<(), Violation> {
    let m = f.e.len();
    let succ = op_successors(f);
    let (longest, _) = op_depths(f, visited);
    let mut used: Vec<usize> = vec![];
    for y in 0..m {
        if !visited[y] {
            continue;
        }
        let ly = match layer_of(y) {
            Some(l) => l,
            None => return viol(&format!("C15:{}:visited-operation-missing", what), format!("[{}] operation {} is not on or downstream of a cycle but has no layer in {:?}", cfg, y, f)),
        };
        used.push(ly);
        for x in 0..m {
            if visited[x] && succ[x].contains(&y) {
                let lx = layer_of(x).unwrap_or(usize::MAX);
                if !(ly > lx) {
                    return viol(&format!("C15:{}:dependency-not-respected", what), format!("[{}] operation {} (layer {}) depends on operation {} (layer {}) in {:?}", cfg, y, ly, x, lx, f));
                }
            }
        }
    }
    used.sort_unstable();
    used.dedup();
    if let Some(min) = used.first() {
        if *min != 0 {
            return viol(&format!("C15:{}:layers-not-from-zero", what), format!("[{}] smallest layer used by a visited operation is {} in {:?}", cfg, min, f));
        }
    }
    if used.len() != longest {
        return viol(&format!("C15:{}:not-shallowest", what), format!("[{}] {} distinct layers used by visited operations but the longest dependency chain has {} operations, in {:?}", cfg, used.len(), longest, f));
    }
    Ok(())
}

pub fn judge(ex: &mut Exec, f: &Plain, cfg: &str, o: &Obs) -> Result<(), Violation> {
    let m = f.e.len();
    let visited = op_visited(f);
    if o.order.len() != m || o.unvisited.len() != m || o.groups_unvisited.len() != m {
        return viol("C15:layer:wrong-length", format!("[{}] {} operations but order has {}, flags have {} / {} entries", cfg, m, o.order.len(), o.unvisited.len(), o.groups_unvisited.len()));
    }
    for (name, flags) in [("layer", &o.unvisited), ("layered_operations", &o.groups_unvisited)] {
        for x in 0..m {
            let flagged = flags[x] != 0;
            if flagged == visited[x] {
                return viol(
                    &format!("C15:{}:wrong-unvisited-flag", name),
                    format!("[{}] operation {} is {} a dependency cycle but its unvisited flag is {} in {:?}", cfg, x, if visited[x] { "neither on nor downstream of" } else { "on or downstream of" }, flags[x], f),
                );
            }
        }
    }
    check_layering(f, &visited, &|x| Some(o.order[x]), "layer", cfg)?;
    // grouped form: every visited operation exactly once, in the group of its layer
    let mut where_: Vec<Vec<usize>> = vec![vec![]; m];
    for (gi, g) in o.groups.iter().enumerate() {
        for &x in g {
            if x >= m {
                return viol("C15:layered_operations:bad-operation-index", format!("[{}] group {} mentions operation {} of {} in {:?}", cfg, gi, x, m, f));
            }
            where_[x].push(gi);
        }
    }
    for x in 0..m {
        if visited[x] && where_[x].len() != 1 {
            return viol("C15:layered_operations:not-exactly-once", format!("[{}] visited operation {} appears in groups {:?} in {:?}", cfg, x, where_[x], f));
        }
    }
    check_layering(f, &visited, &|x| where_[x].first().copied(), "layered_operations", cfg)?;
    ex.probe_if(visited.iter().any(|v| !*v), "has_cycle");
    ex.probe_if(visited.iter().any(|v| !*v) && visited.iter().any(|v| *v), "cycle_and_visited_part");
    Ok(())
}

impl Check for C15 {
    type Case = Case;
    const ID: &'static str = "C15";
    fn runs(tier: Tier) -> u64 {
        crate::runner::scaled(1500000, tier)
    }
    fn generate(r: &mut Rng, tier: Tier) -> Case {
        let big = tier == Tier::Thorough && r.chance(1, 3);
        let f = match r.below(10) {
            0..=3 => graphref::gen_dense(r, big),
            4..=8 => graphref::gen_layered(r, big),
            _ => {
                let c = crate::gen::draw_cfg(r, tier);
                crate::gen::gen_plain(r, &c, None)
            }
        };
        Case { f, schedules: r.range(1, 4) }
    }
    fn execute(c: &Case, ex: &mut Exec) -> Result<(), Violation> {
        let f = &c.f;
        ex.workload_fp = f.fingerprint();
        ex.nontrivial = f.m() >= 1;
        ex.probe_if(f.n() >= 64 || f.m() >= 64 || f.s.len() >= 64 || f.t.len() >= 64, "size_64_or_more");
        ex.probe_if(f.n() >= 256 || f.m() >= 256 || f.s.len() >= 256 || f.t.len() >= 256, "size_256_or_more");
        let budget = launch_budget(f);
        // workload probes
        let succ = op_successors(f);
        let visited = op_visited(f);
        let (longest, _) = op_depths(f, &visited);
        ex.probe_if(f.m() == 0, "no_operations");
        ex.probe_if((0..f.m()).any(|x| succ[x].contains(&x)), "self_dependent_operation");
        ex.probe_if(longest >= 3, "chain_of_three_or_more");
        ex.probe_if(max_multiplicity(f) >= 3, "dependency_multiplicity_three_or_more");
        ex.probe_if(f.e.iter().any(|e| e.s.is_empty() && e.t.is_empty()), "zero_arity_operation");
        ex.probe_if(visited.iter().all(|v| *v) && f.m() >= 2, "acyclic_with_two_or_more_ops");

        ex.seg_control();
        let o = ex.lib_budget("C15:layer", budget, || B::<SimKind>::c15_layer(f))?;
        judge(ex, f, "sim/control", &o)?;
        ex.seg_vec();
        let ov = ex.lib_budget("C15:layer", budget, || B::<VecKind>::c15_layer(f))?;
        judge(ex, f, "vec", &ov)?;
        for _ in 0..c.schedules {
            let pol = ex.seg_perturbed();
            let o = ex.lib_budget("C15:layer", budget, || B::<SimKind>::c15_layer(f))?;
            let name = ex.cfg_name(&pol);
            judge(ex, f, &name, &o)?;
            ex.probe_if(o.groups != ov.groups, "group_order_differs_from_vec");
        }
        let _ = <VecKind as Dev>::NAME;
        Ok(())
    }
    fn shrink(c: &Case) -> Vec<Case> {
        let mut out = vec![];
        if c.schedules > 1 {
            out.push(Case { schedules: 1, ..c.clone() });
        }
        if !c.f.s.is_empty() || !c.f.t.is_empty() {
            let mut f = c.f.clone();
            f.s.clear();
            f.t.clear();
            out.push(Case { f, ..c.clone() });
        }
        for f in shrink_plain(&c.f) {
            out.push(Case { f, ..c.clone() });
        }
        out
    }
    fn rule() -> &'static str {
        "Each run draws one well-formed diagram: 40% dense small multigraph-like (1-7 nodes, 0-7 operations, arity up to 6, same node repeated up to 6 times in one list, zero arity), 50% constructively layered (topological wiring with fan-out, parallel wires, unbalanced depths, second writers) with a back connection in 1/4 of them (cycle with tail, or self-dependence), 10% generic. layer() and layered_operations() run on sim/control, vec and 1-4 perturbed schedules under a launch budget of 2000*(N+E+|s|+|t|+8) device steps; oracle = reference dependency graph (visited <=> survives repeated removal of operations without unremoved predecessors; strict layer increase along dependencies; smallest layer 0; number of distinct layers = longest chain; grouped form contains every visited operation exactly once and is itself a valid layering). Non-trivial iff the diagram has an operation; distinct = distinct (diagram fingerprint, device decision fingerprint) pairs."
    }
    fn assumptions() -> Vec<&'static str> {
        vec![
            "values stored for unvisited operations, trailing empty groups and the whereabouts of unvisited operations in the grouped form are unconstrained",
            "the grouped form is judged as a layering in its own right (not compared entry by entry with layer())",
            "bounded liveness is measured in device kernel launches on SimKind; on VecKind a non-returning call would stall the worker (harness error, never a VIOLATION)",
        ]
    }
    fn required_probes() -> Vec<&'static str> {
        vec!["no_operations", "self_dependent_operation", "chain_of_three_or_more", "dependency_multiplicity_three_or_more", "zero_arity_operation", "has_cycle", "cycle_and_visited_part", "acyclic_with_two_or_more_ops", "group_order_differs_from_vec"]
    }
    fn components() -> serde_json::Value {
        components_s1()
    }
}

/// largest number of parallel connections from one operation to another
pub fn max_multiplicity(f: &Plain) -> usize {
    let mut best = 0;
    for x in &f.e {
        for y in &f.e {
            let k: usize = x.t.iter().map(|v| y.s.iter().filter(|u| *u == v).count()).sum();
            best = best.max(k);
        }
    }
    best
}
