//! Self-tests of the harness itself (trusted-code mitigation): exit 2 on failure, never a VIOLATION.

use crate::gen;
use crate::iso::{iso, iso_bruteforce, Iso};
use crate::rng::Rng;
use crate::runner::Tier;

pub fn main(args: &[String]) -> i32 {
    match args.first().map(|s| s.as_str()) {
        Some("iso") => iso_selftest(args.get(1).and_then(|s| s.parse().ok()).unwrap_or(20_000)),
        Some("partition") => partition_selftest(),
        Some("probes") => probes_selftest(args.get(1).map(|s| s.as_str()).unwrap_or(""), args.get(2).map(|s| s.as_str()).unwrap_or("")),
        _ => {
            eprintln!("usage: ohsim selftest iso [n] | probes <ID> <evidence part file>");
            2
        }
    }
}

/// The isomorphism procedure against (1) random renumberings (must be Yes), (2) brute force over
/// all node bijections on small perturbed copies.
fn iso_selftest(n: u64) -> i32 {
    let mut bad = 0;
    let (mut yes, mut no, mut und) = (0u64, 0u64, 0u64);
    for i in 0..n {
        let mut r = Rng::new(crate::rng::mix(0xC0FFEE, i));
        let mut c = gen::draw_cfg(&mut r, Tier::Quick);
        c.max_extra_nodes = c.max_extra_nodes.min(4);
        let p = gen::gen_plain(&mut r, &c, None);
        if p.n() > 7 {
            continue;
        }
        let q = p.random_renumbering(&mut r);
        match iso(&p, &q) {
            Iso::Yes => yes += 1,
            Iso::Undecided => und += 1,
            Iso::No => {
                bad += 1;
                eprintln!("iso selftest: renumbered copy reported non-isomorphic: {:?} vs {:?}", p, q);
            }
        }
        // perturb q a little and compare with brute force
        let mut q2 = q.clone();
        match r.below(5) {
            0 if !q2.e.is_empty() => {
                let i = r.below(q2.e.len());
                if q2.e[i].s.len() >= 2 {
                    q2.e[i].s.swap(0, 1);
                }
            }
            1 if !q2.s.is_empty() && q2.n() > 0 => {
                let i = r.below(q2.s.len());
                q2.s[i] = r.below(q2.n());
            }
            2 if !q2.e.is_empty() && q2.n() > 0 => {
                let i = r.below(q2.e.len());
                if !q2.e[i].t.is_empty() {
                    let j = r.below(q2.e[i].t.len());
                    q2.e[i].t[j] = r.below(q2.n());
                }
            }
            3 if q2.n() > 0 => {
                let v = r.below(q2.n());
                q2.w[v] = r.below(3) as u32;
            }
            _ => {
                if !q2.t.is_empty() {
                    let k = q2.t.len();
                    q2.t.swap(0, k - 1);
                }
            }
        }
        let want = iso_bruteforce(&p, &q2);
        match iso(&p, &q2) {
            Iso::Yes => {
                if !want {
                    bad += 1;
                    eprintln!("iso selftest: says Yes, brute force says no: {:?} vs {:?}", p, q2);
                }
            }
            Iso::No => {
                no += 1;
                if want {
                    bad += 1;
                    eprintln!("iso selftest: says No, brute force says yes: {:?} vs {:?}", p, q2);
                }
            }
            Iso::Undecided => und += 1,
        }
    }
    println!("iso selftest: {} cases, yes(renumbered)={} no(perturbed)={} undecided={} disagreements={}", n, yes, no, und, bad);
    if bad > 0 {
        2
    } else {
        0
    }
}

/// every reach probe a check declares as required must have fired in the given evidence part
fn probes_selftest(id: &str, part: &str) -> i32 {
    let req = match crate::required_probes(id) {
        Some(r) => r,
        None => {
            eprintln!("selftest probes: unknown property {}", id);
            return 2;
        }
    };
    let v: serde_json::Value = match std::fs::read_to_string(part).ok().and_then(|s| serde_json::from_str(&s).ok()) {
        Some(v) => v,
        None => {
            eprintln!("selftest probes: cannot read {}", part);
            return 2;
        }
    };
    let mut bad = 0;
    for p in &req {
        let n = v["probes"][*p].as_u64().unwrap_or(0);
        if n == 0 {
            eprintln!("selftest probes: {} probe '{}' is stuck at zero in {}", id, p, part);
            bad += 1;
        }
    }
    println!("selftest probes: {} {} required probes, {} stuck at zero", id, req.len(), bad);
    if bad > 0 {
        2
    } else {
        0
    }
}

/// `same_partition` against the quadratic definition
fn partition_selftest() -> i32 {
    let mut bad = 0;
    for i in 0..200_000u64 {
        let mut r = Rng::new(crate::rng::mix(0xFA57, i));
        let n = r.range(0, 9);
        let kx = r.range(1, 4);
        let ky = r.range(1, 4);
        let x: Vec<usize> = (0..n).map(|_| r.below(kx)).collect();
        let y: Vec<usize> = if r.chance(1, 2) {
            // a relabelling of x (same partition)
            let p = r.perm(kx);
            x.iter().map(|c| p[*c]).collect()
        } else {
            (0..n).map(|_| r.below(ky)).collect()
        };
        let want = (0..n).all(|a| (0..n).all(|b| (x[a] == x[b]) == (y[a] == y[b])));
        match crate::plain::same_partition(&x, &y) {
            Ok(()) => {
                if !want {
                    bad += 1;
                    eprintln!("partition selftest: reported equal: {:?} {:?}", x, y);
                }
            }
            Err((a, b, tx)) => {
                if want || (x[a] == x[b]) != tx || (y[a] == y[b]) == tx {
                    bad += 1;
                    eprintln!("partition selftest: bad witness ({}, {}, {}) for {:?} {:?}", a, b, tx, x, y);
                }
            }
        }
    }
    println!("partition selftest: 200000 cases, {} disagreements", bad);
    if bad > 0 {
        2
    } else {
        0
    }
}
