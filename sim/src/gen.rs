//! Swarm-style workload generation: every run first draws its own generator parameters.

use crate::plain::{edge, Plain, L};
use crate::rng::Rng;
use crate::runner::Tier;

#[derive(Clone, Debug)]
pub struct GenCfg {
    pub max_extra_nodes: usize,
    pub max_edges: usize,
    pub max_arity: usize,
    pub node_labels: usize,
    pub edge_labels: usize,
    pub max_iface: usize,
    /// chance (per mille) that a boundary position reuses an existing node of the same label
    pub reuse_boundary: usize,
    /// chance (per mille) that an incidence slot repeats a node already used by the same edge
    pub repeat_in_edge: usize,
    /// chance (per mille) of a zero-arity side
    pub zero_arity: usize,
    /// this run draws unusually large diagrams
    pub large: bool,
    /// this run draws diagrams past the usual power-of-two thresholds (64, 128, 256 nodes / wires / edges)
    pub huge: bool,
}

pub fn draw_cfg(r: &mut Rng, tier: Tier) -> GenCfg {
    // unusually large workloads at a low rate (bugs that need a size threshold to manifest)
    // and, rarer still, workloads past the thresholds at which an implementation might switch code path
    // (64, 128, 256 nodes, wires or hyperedges; a u8 counter)
    let huge = if tier == Tier::Thorough { r.chance(1, 150) } else { r.chance(1, 500) };
    if huge {
        return GenCfg {
            max_extra_nodes: *r.pick(&[70, 140, 300]),
            max_edges: *r.pick(&[20, 70, 140, 280]),
            max_arity: r.range(1, 6),
            node_labels: r.range(2, 6),
            edge_labels: r.range(1, 5),
            max_iface: *r.pick(&[6, 40, 70, 140, 270]),
            reuse_boundary: *r.pick(&[0, 150, 400]),
            repeat_in_edge: *r.pick(&[0, 100, 400]),
            zero_arity: *r.pick(&[0, 100]),
            large: true,
            huge: true,
        };
    }
    let large = if tier == Tier::Thorough { r.chance(1, 25) } else { r.chance(1, 120) };
    if large {
        return GenCfg {
            max_extra_nodes: r.range(12, 48),
            max_edges: r.range(4, 20),
            max_arity: r.range(1, 6),
            node_labels: r.range(2, 6),
            edge_labels: r.range(1, 5),
            max_iface: r.range(2, 12),
            reuse_boundary: *r.pick(&[0, 150, 400]),
            repeat_in_edge: *r.pick(&[0, 100, 400]),
            zero_arity: *r.pick(&[0, 100]),
            large: true,
            huge: false,
        };
    }
    let big = tier == Tier::Thorough && r.chance(1, 4);
    GenCfg {
        max_extra_nodes: if big { r.range(0, 9) } else { r.range(0, 5) },
        max_edges: if big { r.range(0, 7) } else { r.range(0, 4) },
        max_arity: r.range(0, if big { 4 } else { 3 }),
        node_labels: r.range(1, 4),
        edge_labels: r.range(1, 3),
        max_iface: r.range(1, if big { 5 } else { 4 }),
        reuse_boundary: *r.pick(&[0, 150, 400, 800]),
        repeat_in_edge: *r.pick(&[0, 100, 400]),
        zero_arity: *r.pick(&[0, 100, 300]),
        large: false,
        huge: false,
    }
}

/// interface length: mostly 1..=max, empty at a fixed low rate
pub fn iface_len(r: &mut Rng, c: &GenCfg) -> usize {
    if r.chance(1, 8) {
        0
    } else {
        r.range(1, c.max_iface.max(1))
    }
}

pub fn gen_type(r: &mut Rng, c: &GenCfg) -> Vec<L> {
    let k = iface_len(r, c);
    (0..k).map(|_| r.below(c.node_labels) as L).collect()
}

fn gen_edge(r: &mut Rng, c: &GenCfg, n: usize) -> (Vec<usize>, Vec<usize>) {
    let side = |r: &mut Rng| -> Vec<usize> {
        if n == 0 || r.chance(c.zero_arity, 1000) {
            return vec![];
        }
        let k = r.range(0, c.max_arity);
        let mut v: Vec<usize> = vec![];
        for _ in 0..k {
            if !v.is_empty() && r.chance(c.repeat_in_edge, 1000) {
                let x = *r.pick(&v);
                v.push(x);
            } else {
                v.push(r.below(n));
            }
        }
        v
    };
    let s = side(r);
    let t = side(r);
    (s, t)
}

/// A well-formed diagram; if `src` is given its source type is exactly `src`.
pub fn gen_plain(r: &mut Rng, c: &GenCfg, src: Option<&[L]>) -> Plain {
    // forced corner cases at a fixed low rate
    if src.is_none() && r.chance(1, 60) {
        return Plain::empty();
    }
    let mut w: Vec<L> = vec![];
    let mut s: Vec<usize> = vec![];
    if let Some(ty) = src {
        for &l in ty {
            if r.chance(c.reuse_boundary, 1000) {
                let same: Vec<usize> = (0..w.len()).filter(|j| w[*j] == l).collect();
                if !same.is_empty() {
                    s.push(*r.pick(&same));
                    continue;
                }
            }
            w.push(l);
            s.push(w.len() - 1);
        }
    }
    let mut extra = r.range(0, c.max_extra_nodes);
    if extra == 0 && w.is_empty() && !r.chance(1, 30) {
        extra = 1;
    }
    for _ in 0..extra {
        w.push(r.below(c.node_labels) as L);
    }
    let n = w.len();
    if src.is_some() && n > 1 {
        // the boundary nodes need not come first
        let np = r.perm(n);
        let mut w2 = vec![0; n];
        for v in 0..n {
            w2[np[v]] = w[v];
        }
        w = w2;
        for x in s.iter_mut() {
            *x = np[*x];
        }
    }
    let m = r.range(0, c.max_edges);
    let mut e = vec![];
    for _ in 0..m {
        let (es, et) = gen_edge(r, c, n);
        e.push(edge(r.below(c.edge_labels) as L, es, et));
    }
    if src.is_none() && n > 0 {
        let k = iface_len(r, c);
        s = (0..k).map(|_| r.below(n)).collect();
        dup_some(r, c, &mut s);
    }
    let mut t: Vec<usize> = if n == 0 { vec![] } else { (0..iface_len(r, c)).map(|_| r.below(n)).collect() };
    dup_some(r, c, &mut t);
    // nodes shared between the interfaces
    if !s.is_empty() && !t.is_empty() && r.chance(c.reuse_boundary, 2000) {
        let i = r.below(t.len());
        t[i] = *r.pick(&s);
    }
    Plain { w, e, s, t }
}

fn dup_some(r: &mut Rng, c: &GenCfg, v: &mut Vec<usize>) {
    if v.len() >= 2 && r.chance(c.reuse_boundary, 1000) {
        let i = r.below(v.len());
        let j = r.below(v.len());
        v[i] = v[j];
    }
}

/// A diagram in which long chains of identifications happen when composed: a "collapsing" spider
/// whose legs repeat few nodes.
pub fn gen_collapsing(r: &mut Rng, ty_in: &[L]) -> Plain {
    // one node per distinct label, every input position of that label lands on it
    let mut labels: Vec<L> = ty_in.to_vec();
    labels.sort_unstable();
    labels.dedup();
    let s: Vec<usize> = ty_in.iter().map(|l| labels.iter().position(|x| x == l).unwrap()).collect();
    let k = r.range(0, 4);
    let t: Vec<usize> = if labels.is_empty() { vec![] } else { (0..k).map(|_| r.below(labels.len())).collect() };
    Plain { w: labels, e: vec![], s, t }
}

/// A discrete diagram whose two legs are the *same* endofunction on its node list (as many
/// ports as nodes), mostly not injective: looks like an identity, is not one.
pub fn gen_endo_spider(r: &mut Rng, ty_in: &[L]) -> Plain {
    let n = ty_in.len();
    let s: Vec<usize> = (0..n)
        .map(|i| {
            let same: Vec<usize> = (0..n).filter(|j| ty_in[*j] == ty_in[i]).collect();
            if r.chance(1, 3) {
                i
            } else {
                *r.pick(&same)
            }
        })
        .collect();
    Plain { w: ty_in.to_vec(), e: vec![], s: s.clone(), t: s }
}

/// composable pair with occasional collapsing / identity-looking right operand
pub fn gen_pair(r: &mut Rng, c: &GenCfg) -> (Plain, Plain) {
    let f = if r.chance(1, 24) {
        let ty = gen_type(r, c);
        gen_endo_spider(r, &ty)
    } else {
        gen_plain(r, c, None)
    };
    let ty = f.tgt_type();
    let g = match r.below(24) {
        0 | 1 => gen_collapsing(r, &ty),
        2 | 3 => gen_endo_spider(r, &ty),
        _ => gen_plain(r, c, Some(&ty)),
    };
    (f, g)
}

pub fn gen_triple(r: &mut Rng, c: &GenCfg) -> (Plain, Plain, Plain) {
    let (f, g) = gen_pair(r, c);
    let ty = g.tgt_type();
    let h = gen_plain(r, c, Some(&ty));
    (f, g, h)
}

/// Turn a composable pair into a mismatching one (type differs in one label, in length, or one
/// side empty).  Returns `None` when no mismatch can be produced from this pair.
pub fn make_mismatch(r: &mut Rng, f: &Plain, g: &Plain) -> Option<(Plain, Plain)> {
    let mut g2 = g.clone();
    match r.below(4) {
        0 => {
            // drop one source position of g
            if g2.s.is_empty() {
                return None;
            }
            let i = r.below(g2.s.len());
            g2.s.remove(i);
        }
        1 => {
            // add one source position to g
            if g2.w.is_empty() {
                g2.w.push(0);
            }
            let v = r.below(g2.w.len());
            let i = r.below(g2.s.len() + 1);
            g2.s.insert(i, v);
        }
        2 => {
            // relabel the node under one source position of g (fresh node so nothing else changes)
            if g2.s.is_empty() {
                return None;
            }
            let i = r.below(g2.s.len());
            let old = g2.w[g2.s[i]];
            g2.w.push(old + 1);
            g2.s[i] = g2.w.len() - 1;
        }
        _ => {
            // empty source side against a non-empty target side
            if f.t.is_empty() {
                return None;
            }
            g2.s.clear();
        }
    }
    if f.tgt_type() == g2.src_type() {
        None
    } else {
        Some((f.clone(), g2))
    }
}
