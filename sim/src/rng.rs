//! The only source of randomness in the harness: splitmix64 seeding a xoshiro256**.
//! One integer (VERIF_SEED) decides everything; sub-streams are derived by hashing.

#[derive(Clone, Debug)]
pub struct Rng {
    s: [u64; 4],
}

pub fn splitmix(state: &mut u64) -> u64 {
    *state = state.wrapping_add(0x9E3779B97F4A7C15);
    let mut z = *state;
    z = (z ^ (z >> 30)).wrapping_mul(0xBF58476D1CE4E5B9);
    z = (z ^ (z >> 27)).wrapping_mul(0x94D049BB133111EB);
    z ^ (z >> 31)
}

/// Mix two words into one (used to derive stream seeds: H(seed, property), H(stream, run) ...)
pub fn mix(a: u64, b: u64) -> u64 {
    let mut s = a ^ 0x51_7C_C1_B7_27_22_0A_95u64.wrapping_mul(b.wrapping_add(0x2545F4914F6CDD1D));
    let x = splitmix(&mut s);
    let y = splitmix(&mut s);
    x ^ y.rotate_left(17)
}

pub fn hash_str(s: &str) -> u64 {
    // FNV-1a
    let mut h = 0xcbf29ce484222325u64;
    for b in s.bytes() {
        h ^= b as u64;
        h = h.wrapping_mul(0x100000001b3);
    }
    h
}

impl Rng {
    pub fn new(seed: u64) -> Rng {
        let mut st = seed;
        let s = [
            splitmix(&mut st),
            splitmix(&mut st),
            splitmix(&mut st),
            splitmix(&mut st),
        ];
        Rng { s }
    }
    /// derive an independent sub-stream without advancing self in a data-dependent way
    pub fn split(&mut self, tag: u64) -> Rng {
        let a = self.next();
        Rng::new(mix(a, tag))
    }
    #[inline]
    pub fn next(&mut self) -> u64 {
        let r = self.s[1].wrapping_mul(5).rotate_left(7).wrapping_mul(9);
        let t = self.s[1] << 17;
        self.s[2] ^= self.s[0];
        self.s[3] ^= self.s[1];
        self.s[1] ^= self.s[2];
        self.s[0] ^= self.s[3];
        self.s[2] ^= t;
        self.s[3] = self.s[3].rotate_left(45);
        r
    }
    /// uniform in 0..n (n == 0 gives 0)
    #[inline]
    pub fn below(&mut self, n: usize) -> usize {
        if n <= 1 {
            0
        } else {
            ((self.next() >> 11) % n as u64) as usize
        }
    }
    /// uniform in lo..=hi
    #[inline]
    pub fn range(&mut self, lo: usize, hi: usize) -> usize {
        lo + self.below(hi - lo + 1)
    }
    /// true with probability num/den
    #[inline]
    pub fn chance(&mut self, num: usize, den: usize) -> bool {
        self.below(den) < num
    }
    pub fn shuffle<T>(&mut self, v: &mut [T]) {
        for i in (1..v.len()).rev() {
            let j = self.below(i + 1);
            v.swap(i, j);
        }
    }
    pub fn perm(&mut self, n: usize) -> Vec<usize> {
        let mut p: Vec<usize> = (0..n).collect();
        self.shuffle(&mut p);
        p
    }
    pub fn pick<'a, T>(&mut self, v: &'a [T]) -> &'a T {
        &v[self.below(v.len())]
    }
}

/// Incremental, allocation-free hash used for event logs and workload fingerprints.
#[derive(Clone, Copy, Debug)]
pub struct Fp(pub u64);
impl Fp {
    pub fn new() -> Fp {
        Fp(0x9E3779B97F4A7C15)
    }
    #[inline]
    pub fn add(&mut self, x: u64) {
        self.0 = (self.0 ^ x).wrapping_mul(0x100000001b3).rotate_left(23) ^ (x >> 7);
    }
    pub fn add_slice(&mut self, xs: &[usize]) {
        self.add(xs.len() as u64 ^ 0xABCD);
        for x in xs {
            self.add(*x as u64);
        }
    }
}
