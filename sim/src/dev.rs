//! Glue between the plain model and the library's device-generic types.
//!
//! `Dev` is implemented for the real `VecKind` and for the simulated `SimKind`, so that every
//! converter, functor, optic and check is written once, generically (`dev_impl!`).

use crate::plain::{edge, Plain, L};
use crate::simkind::{SimArray, SimKind};
use open_hypergraphs::array::vec::{VecArray, VecKind};
use open_hypergraphs::array::*;
use open_hypergraphs::finite_function::FiniteFunction;
use open_hypergraphs::indexed_coproduct::IndexedCoproduct;
use open_hypergraphs::semifinite::SemifiniteFunction;
use open_hypergraphs::strict::hypergraph::Hypergraph;
use open_hypergraphs::strict::open_hypergraph::OpenHypergraph;
use std::marker::PhantomData;

pub trait Dev: ArrayKind<I = usize> + std::fmt::Debug + Clone + PartialEq + 'static {
    const NAME: &'static str;
    const IS_SIM: bool;
    fn ix(v: Vec<usize>) -> Self::Index;
    fn arr<T: Clone>(v: Vec<T>) -> Self::Type<T>;
    fn un<T: Clone>(a: &Self::Type<T>) -> Vec<T>;
    fn unix(a: &Self::Index) -> Vec<usize>;
}
impl Dev for VecKind {
    const NAME: &'static str = "vec";
    const IS_SIM: bool = false;
    fn ix(v: Vec<usize>) -> VecArray<usize> {
        VecArray(v)
    }
    fn arr<T: Clone>(v: Vec<T>) -> VecArray<T> {
        VecArray(v)
    }
    fn un<T: Clone>(a: &VecArray<T>) -> Vec<T> {
        a.0.clone()
    }
    fn unix(a: &VecArray<usize>) -> Vec<usize> {
        a.0.clone()
    }
}
impl Dev for SimKind {
    const NAME: &'static str = "sim";
    const IS_SIM: bool = true;
    fn ix(v: Vec<usize>) -> SimArray<usize> {
        SimArray(v)
    }
    fn arr<T: Clone>(v: Vec<T>) -> SimArray<T> {
        SimArray(v)
    }
    fn un<T: Clone>(a: &SimArray<T>) -> Vec<T> {
        a.0.clone()
    }
    fn unix(a: &SimArray<usize>) -> Vec<usize> {
        a.0.clone()
    }
}

/// Namespace for device-generic harness code: `B::<VecKind>::f(..)`, `B::<SimKind>::f(..)`.
pub struct B<K>(pub PhantomData<K>);

/// Wraps items into `impl<K> B<K> where <all bounds the library needs>`.
#[macro_export]
macro_rules! dev_impl {
    ($($body:tt)*) => {
        impl<K> $crate::dev::B<K>
        where
            K: $crate::dev::Dev,
            K::Type<usize>: open_hypergraphs::array::NaturalArray<K> + PartialEq,
            K::Type<$crate::plain::L>: open_hypergraphs::array::Array<K, $crate::plain::L> + PartialEq + std::fmt::Debug,
            K::Type<u64>: open_hypergraphs::array::Array<K, u64> + PartialEq + std::fmt::Debug,
            K::Index: std::fmt::Debug,
        {
            $($body)*
        }
    };
}

pub type OH<K> = OpenHypergraph<K, L, L>;
pub type HG<K> = Hypergraph<K, L, L>;
pub type FF<K> = FiniteFunction<K>;
pub type SF<K, T> = SemifiniteFunction<K, T>;
pub type IC<K, F> = IndexedCoproduct<K, F>;

dev_impl! {
    pub fn ff(table: Vec<usize>, target: usize) -> FF<K> {
        FiniteFunction::new(K::ix(table), target).expect("harness: finite function table out of range")
    }
    pub fn sf(v: Vec<L>) -> SF<K, L> {
        SemifiniteFunction(K::arr(v))
    }
    pub fn un_ff(f: &FF<K>) -> (Vec<usize>, usize) {
        (K::unix(&f.table), f.target)
    }
    pub fn un_sf(f: &SF<K, L>) -> Vec<L> {
        K::un(&f.0)
    }
    /// segmented array of finite functions from lists of node indices
    pub fn seg(lists: &[Vec<usize>], n: usize) -> IC<K, FF<K>> {
        let sizes: Vec<usize> = lists.iter().map(|l| l.len()).collect();
        let vals: Vec<usize> = lists.iter().flatten().copied().collect();
        let values = Self::ff(vals, n);
        IndexedCoproduct::from_semifinite(SemifiniteFunction(K::arr(sizes)), values).expect("harness: segmented array")
    }
    /// segmented array of labels
    pub fn seg_labels(lists: &[Vec<L>]) -> IC<K, SF<K, L>> {
        let sizes: Vec<usize> = lists.iter().map(|l| l.len()).collect();
        let vals: Vec<L> = lists.iter().flatten().copied().collect();
        IndexedCoproduct::from_semifinite(SemifiniteFunction(K::arr(sizes)), Self::sf(vals)).expect("harness: segmented labels")
    }
    pub fn un_seg_labels(x: &IC<K, SF<K, L>>) -> Vec<Vec<L>> {
        let sizes = K::unix(&x.sources.table);
        let vals = K::un(&x.values.0);
        let mut out = vec![];
        let mut a = 0;
        for k in sizes {
            out.push(vals[a..a + k].to_vec());
            a += k;
        }
        out
    }
    pub fn un_seg(x: &IC<K, FF<K>>) -> Vec<Vec<usize>> {
        let sizes = K::unix(&x.sources.table);
        let vals = K::unix(&x.values.table);
        let mut out = vec![];
        let mut a = 0;
        for k in sizes {
            out.push(vals[a..a + k].to_vec());
            a += k;
        }
        out
    }

    /// Plain hypergraph part -> device hypergraph, through the checked constructor.
    pub fn to_hg(p: &Plain) -> HG<K> {
        let n = p.w.len();
        let s = Self::seg(&p.e.iter().map(|e| e.s.clone()).collect::<Vec<_>>(), n);
        let t = Self::seg(&p.e.iter().map(|e| e.t.clone()).collect::<Vec<_>>(), n);
        Hypergraph::new(s, t, Self::sf(p.w.clone()), Self::sf(p.e.iter().map(|e| e.l).collect())).expect("harness: to_hg on a well-formed plain diagram")
    }

    /// Plain -> device value, through the checked constructors.
    pub fn to_dev(p: &Plain) -> OH<K> {
        let n = p.w.len();
        let h = Self::to_hg(p);
        OpenHypergraph::new(Self::ff(p.s.clone(), n), Self::ff(p.t.clone(), n), h).expect("harness: to_dev on a well-formed plain diagram")
    }

    /// Deep well-formedness, re-derived from the raw public fields (does not call `validate`).
    pub fn deep_wf(f: &OH<K>) -> Result<(), String> {
        Self::deep_wf_hg(&f.h)?;
        let n = K::un(&f.h.w.0).len();
        for (name, leg) in [("s", &f.s), ("t", &f.t)] {
            if leg.target != n {
                return Err(format!("interface {}: codomain {} but {} nodes", name, leg.target, n));
            }
            if let Some(v) = K::unix(&leg.table).iter().find(|v| **v >= n) {
                return Err(format!("interface {}: node reference {} out of range ({} nodes)", name, v, n));
            }
        }
        Ok(())
    }
    pub fn deep_wf_hg(h: &HG<K>) -> Result<(), String> {
        let n = K::un(&h.w.0).len();
        let m = K::un(&h.x.0).len();
        for (name, ic) in [("s", &h.s), ("t", &h.t)] {
            let sizes = K::unix(&ic.sources.table);
            let vals = K::unix(&ic.values.table);
            if sizes.len() != m {
                return Err(format!("incidence {}: {} segments for {} hyperedges", name, sizes.len(), m));
            }
            let sum: usize = sizes.iter().sum();
            if sum != vals.len() {
                return Err(format!("incidence {}: segment sizes add up to {} but {} values", name, sum, vals.len()));
            }
            // C05 states "segment sizes add up to the length of the incidence arrays"; that the size map's
            // codomain is exactly sum+1 is C08's statement (not claimed here): only its being a legal
            // finite function (every size below the codomain) is required
            if let Some(k) = sizes.iter().find(|k| **k >= ic.sources.target) {
                return Err(format!("incidence {}: segment size {} not below the size-map codomain {}", name, k, ic.sources.target));
            }
            if ic.values.target != n {
                return Err(format!("incidence {}: values codomain {} but {} nodes", name, ic.values.target, n));
            }
            if let Some(v) = vals.iter().find(|v| **v >= n) {
                return Err(format!("incidence {}: node reference {} out of range ({} nodes)", name, v, n));
            }
        }
        Ok(())
    }

    /// Device value -> Plain by reading the raw public fields with explicit loops.
    /// Checks deep well-formedness first (the standing invariant of every check).
    pub fn from_dev(f: &OH<K>) -> Result<Plain, String> {
        Self::deep_wf(f)?;
        let mut p = Self::from_hg_unchecked(&f.h);
        p.s = K::unix(&f.s.table);
        p.t = K::unix(&f.t.table);
        Ok(p)
    }
    pub fn from_hg(h: &HG<K>) -> Result<Plain, String> {
        Self::deep_wf_hg(h)?;
        Ok(Self::from_hg_unchecked(h))
    }
    fn from_hg_unchecked(h: &HG<K>) -> Plain {
        let w = K::un(&h.w.0);
        let x = K::un(&h.x.0);
        let ss = K::unix(&h.s.sources.table);
        let sv = K::unix(&h.s.values.table);
        let ts = K::unix(&h.t.sources.table);
        let tv = K::unix(&h.t.values.table);
        let mut e = Vec::with_capacity(x.len());
        let (mut a, mut b) = (0, 0);
        for i in 0..x.len() {
            e.push(edge(x[i], sv[a..a + ss[i]].to_vec(), tv[b..b + ts[i]].to_vec()));
            a += ss[i];
            b += ts[i];
        }
        Plain { w, e, s: vec![], t: vec![] }
    }
}
