//! The simulated device's scheduler: every open outcome of the array contract is decided here,
//! from a seeded PRNG (generation mode) or from a recorded decision trace (replay mode).
//! Also: the logical clock (kernel launches), the launch-budget watchdog and the event-log hash.
//!
//! Nothing in here reads a wall clock, a thread id or a HashMap iteration order.

use crate::rng::{Fp, Rng};
use serde::{Deserialize, Serialize};
use std::cell::RefCell;

pub const N_KINDS: usize = 4;
pub const KIND_NAMES: [&str; N_KINDS] = ["sort_ties", "cc_numbering", "sparse_keys", "scatter_fill"];
pub const SORT_TIES: usize = 0;
pub const CC_NUMBERING: usize = 1;
pub const SPARSE_KEYS: usize = 2;
pub const SCATTER_FILL: usize = 3;

#[derive(Clone, Copy, PartialEq, Eq, Debug, Serialize, Deserialize)]
pub enum Policy {
    /// the decision the shipped Vec backend takes (fault-free control)
    VecLike,
    Reverse,
    Rotate,
    Random,
    /// numbering only: largest component first (falls back to Reverse where no weights exist)
    ByLargest,
}

pub const ALL_VECLIKE: [Policy; N_KINDS] = [Policy::VecLike; N_KINDS];

/// One decision at one choice point. `choice` empty = the VecLike decision.
/// For permutation kinds `choice` is a permutation of `0..n`; for scatter_fill it is `[index]`.
#[derive(Clone, Debug, PartialEq, Serialize, Deserialize)]
pub struct Decision {
    pub kind: usize,
    pub n: usize,
    pub choice: Vec<usize>,
}

enum Mode {
    /// no device is active (Vec runs): choice points cannot be reached
    Off,
    Gen { policies: [Policy; N_KINDS], rng: Rng },
    Replay,
}

/// payload of the watchdog panic
pub struct Watchdog(pub u64);
/// payload of a device precondition failure (library handed the device illegal arguments)
pub struct DeviceContract(pub String);

#[derive(Clone, Debug, Default, Serialize, Deserialize)]
pub struct SchedStats {
    pub launches: u64,
    pub max_call_launches: u64,
    pub points: [u64; N_KINDS],
    pub fired: [u64; N_KINDS],
    /// decisions whose *output* provably differed from the VecLike output
    pub effective: [u64; N_KINDS],
    pub replay_mismatch: u64,
    pub log_hash: u64,
    pub sched_fp: u64,
}

struct State {
    mode: Mode,
    replay: Vec<Decision>,
    replay_pos: usize,
    store: bool,
    trace: Vec<Decision>,
    call_launches: u64,
    budget: u64,
    stats: SchedStats,
    log: Fp,
    fp: Fp,
}

thread_local! {
    static S: RefCell<State> = RefCell::new(State {
        mode: Mode::Off, replay: vec![], replay_pos: 0, store: false, trace: vec![],
        call_launches: 0, budget: u64::MAX, stats: SchedStats::default(), log: Fp::new(), fp: Fp::new(),
    });
}

/// Start a simulated run.  `replay = Some(trace)` feeds recorded decisions back by position.
pub fn begin_run(store: bool, replay: Option<Vec<Decision>>) {
    S.with(|s| {
        let mut s = s.borrow_mut();
        s.mode = if replay.is_some() { Mode::Replay } else { Mode::Off };
        s.replay = replay.unwrap_or_default();
        s.replay_pos = 0;
        s.store = store;
        s.trace.clear();
        s.call_launches = 0;
        s.budget = u64::MAX;
        s.stats = SchedStats::default();
        s.log = Fp::new();
        s.fp = Fp::new();
    })
}

pub fn is_replay() -> bool {
    S.with(|s| matches!(s.borrow().mode, Mode::Replay))
}

/// Start a schedule segment: subsequent choice points use these policies and this PRNG stream.
/// Ignored in replay mode (decisions then come from the trace).
pub fn segment(policies: [Policy; N_KINDS], seed: u64) {
    S.with(|s| {
        let mut s = s.borrow_mut();
        if !matches!(s.mode, Mode::Replay) {
            s.mode = Mode::Gen { policies, rng: Rng::new(seed) };
        }
    })
}

/// Leave the device (Vec configuration): a choice point reached now is a harness error.
pub fn segment_off() {
    S.with(|s| {
        let mut s = s.borrow_mut();
        if !matches!(s.mode, Mode::Replay) {
            s.mode = Mode::Off;
        }
    })
}

/// Arm the watchdog for one library call.
pub fn arm(budget: u64) {
    S.with(|s| {
        let mut s = s.borrow_mut();
        if s.call_launches > s.stats.max_call_launches {
            s.stats.max_call_launches = s.call_launches;
        }
        s.call_launches = 0;
        s.budget = budget;
    })
}

pub fn end_run() -> (SchedStats, Vec<Decision>) {
    S.with(|s| {
        let mut s = s.borrow_mut();
        if s.call_launches > s.stats.max_call_launches {
            s.stats.max_call_launches = s.call_launches;
        }
        s.stats.log_hash = s.log.0;
        s.stats.sched_fp = s.fp.0;
        s.mode = Mode::Off;
        let t = std::mem::take(&mut s.trace);
        (s.stats.clone(), t)
    })
}

/// One kernel launch: advances the logical clock, feeds the event log, checks the watchdog.
#[inline]
pub fn launch(prim: u8, len: usize) {
    let over = S.with(|s| {
        let mut s = s.borrow_mut();
        s.stats.launches += 1;
        s.call_launches += 1;
        let seq = s.stats.launches;
        s.log.add((prim as u64) << 56 ^ (len as u64) << 24 ^ seq);
        if s.call_launches > s.budget {
            // disarm so that unwinding code does not re-trigger
            let b = s.budget;
            s.budget = u64::MAX;
            Some(b)
        } else {
            None
        }
    });
    if let Some(b) = over {
        std::panic::panic_any(Watchdog(b));
    }
}

/// the device reports that a non-default decision changed its output
pub fn note_effective(kind: usize) {
    S.with(|s| s.borrow_mut().stats.effective[kind] += 1)
}

pub fn contract(ok: bool, msg: &str) {
    if !ok {
        std::panic::panic_any(DeviceContract(msg.to_string()));
    }
}

/// restrict / extend a permutation to a domain of another size, preserving relative order
fn adapt_perm(p: &[usize], n: usize) -> Vec<usize> {
    if n <= p.len() {
        // ranks of the first n entries
        let head = &p[..n];
        let mut sorted: Vec<usize> = head.to_vec();
        sorted.sort_unstable();
        head.iter().map(|x| sorted.binary_search(x).unwrap()).collect()
    } else {
        let mut q = p.to_vec();
        q.extend(p.len()..n);
        q
    }
}

fn is_identity(p: &[usize]) -> bool {
    p.iter().enumerate().all(|(i, x)| i == *x)
}

fn record(s: &mut State, kind: usize, n: usize, choice: &[usize], fired: bool) {
    s.stats.points[kind] += 1;
    if fired {
        s.stats.fired[kind] += 1;
    }
    s.log.add(0xD0 ^ (kind as u64) << 8 ^ (n as u64) << 16);
    s.fp.add((kind as u64) << 8 ^ (n as u64) << 16);
    for c in choice {
        s.log.add(*c as u64);
        s.fp.add(*c as u64);
    }
    if s.store {
        s.trace.push(Decision { kind, n, choice: choice.to_vec() });
    }
}

/// Choose a permutation of `0..n` at a choice point of `kind`.  `None` = identity (VecLike).
/// `weights` lets ByLargest order by decreasing weight.
pub fn choose_perm(kind: usize, n: usize, weights: Option<&[usize]>) -> Option<Vec<usize>> {
    if n <= 1 {
        return None;
    }
    S.with(|s| {
        let mut s = s.borrow_mut();
        let s = &mut *s;
        let p: Option<Vec<usize>> = match &mut s.mode {
            Mode::Off => std::panic::panic_any(DeviceContract("choice point reached with the device off".into())),
            Mode::Replay => {
                let d = s.replay.get(s.replay_pos);
                s.replay_pos += 1;
                match d {
                    Some(d) if d.kind == kind && d.n == n && d.choice.len() == n => Some(d.choice.clone()),
                    Some(d) if d.choice.is_empty() && d.kind == kind => None,
                    None => None,
                    Some(d) if d.kind == kind && d.choice.len() == d.n => {
                        // the workload was shrunk under this trace: adapt the recorded permutation
                        // to the new domain (keeps the perturbation alive during minimisation; the
                        // decisions actually taken are re-recorded, so the final file replays exactly)
                        s.stats.replay_mismatch += 1;
                        Some(adapt_perm(&d.choice, n))
                    }
                    Some(_) => {
                        s.stats.replay_mismatch += 1;
                        None
                    }
                }
            }
            Mode::Gen { policies, rng } => match policies[kind] {
                Policy::VecLike => None,
                Policy::Reverse => Some((0..n).rev().collect()),
                Policy::Rotate => Some((0..n).map(|i| (i + 1) % n).collect()),
                Policy::Random => Some(rng.perm(n)),
                Policy::ByLargest => match weights {
                    Some(w) => {
                        let mut ix: Vec<usize> = (0..n).collect();
                        ix.sort_by(|a, b| w[*b].cmp(&w[*a]));
                        // ix[rank] = original; we need perm[original] = rank
                        let mut p = vec![0; n];
                        for (rank, o) in ix.iter().enumerate() {
                            p[*o] = rank;
                        }
                        Some(p)
                    }
                    None => Some((0..n).rev().collect()),
                },
            },
        };
        let p = match p {
            Some(p) if is_identity(&p) => None,
            x => x,
        };
        match &p {
            Some(p) => record(s, kind, n, p, true),
            None => record(s, kind, n, &[], false),
        }
        p
    })
}

/// Choose an index in `0..n` (scatter filler).  VecLike = 0.  `effective` says whether some
/// output slot will actually show the filler (only then does the decision count as fired).
pub fn choose_index(kind: usize, n: usize, effective: bool) -> usize {
    if n <= 1 {
        return 0;
    }
    S.with(|s| {
        let mut s = s.borrow_mut();
        let s = &mut *s;
        let i = match &mut s.mode {
            Mode::Off => std::panic::panic_any(DeviceContract("choice point reached with the device off".into())),
            Mode::Replay => {
                let d = s.replay.get(s.replay_pos);
                s.replay_pos += 1;
                match d {
                    Some(d) if d.kind == kind && d.choice.len() == 1 && d.choice[0] < n => d.choice[0],
                    Some(d) if d.kind == kind && d.choice.is_empty() => 0,
                    Some(d) if d.kind == kind && d.choice.len() == 1 => {
                        s.stats.replay_mismatch += 1;
                        d.choice[0] % n
                    }
                    None => 0,
                    Some(_) => {
                        s.stats.replay_mismatch += 1;
                        0
                    }
                }
            }
            Mode::Gen { policies, rng } => match policies[kind] {
                Policy::VecLike => 0,
                Policy::Reverse | Policy::ByLargest => n - 1,
                Policy::Rotate => 1 % n,
                Policy::Random => rng.below(n),
            },
        };
        if i == 0 {
            record(s, kind, n, &[], false);
        } else {
            record(s, kind, n, &[i], effective);
        }
        i
    })
}
