//! Decision procedure for isomorphism of open hypergraphs exactly as C03 defines it: a bijection
//! on nodes and one on hyperedges preserving node labels, edge labels, the ordered source and
//! target lists of every hyperedge, and both interfaces position by position.
//!
//! Interfaces are pinned first, colour refinement prunes, backtracking over hyperedges decides.
//! A step budget turns pathological symmetric cases into `Undecided` (counted, never a violation).

use crate::plain::Plain;
use crate::rng::Fp;

#[derive(Clone, Copy, PartialEq, Eq, Debug)]
pub enum Iso {
    Yes,
    No,
    Undecided,
}

pub const ISO_BUDGET: usize = 100_000;

fn h2(a: u64, b: u64) -> u64 {
    let mut f = Fp(a ^ 0x1234_5678_9ABC_DEF1);
    f.add(b);
    f.add(a.rotate_left(29));
    f.0
}

/// isomorphism-invariant colours for nodes and edges after `rounds` of refinement
fn colours(p: &Plain, rounds: usize) -> (Vec<u64>, Vec<u64>) {
    let n = p.w.len();
    let mut nc: Vec<u64> = p.w.iter().map(|l| h2(0xA0, *l as u64)).collect();
    for (i, v) in p.s.iter().enumerate() {
        nc[*v] = h2(nc[*v], 0x5000 + i as u64);
    }
    for (i, v) in p.t.iter().enumerate() {
        nc[*v] = h2(nc[*v], 0x7000_0000 + i as u64);
    }
    let mut ec: Vec<u64> = p.e.iter().map(|e| h2(h2(0xE0, e.l as u64), (e.s.len() as u64) << 20 ^ e.t.len() as u64)).collect();
    for _ in 0..rounds {
        // edges see their ordered ports
        let mut ec2 = Vec::with_capacity(ec.len());
        for (i, e) in p.e.iter().enumerate() {
            let mut c = ec[i];
            for v in &e.s {
                c = h2(c, nc[*v]);
            }
            c = h2(c, 0xFFFF);
            for v in &e.t {
                c = h2(c, nc[*v]);
            }
            ec2.push(c);
        }
        // nodes see the multiset of (edge colour, side, port)
        let mut inc: Vec<Vec<u64>> = vec![vec![]; n];
        for (i, e) in p.e.iter().enumerate() {
            for (k, v) in e.s.iter().enumerate() {
                inc[*v].push(h2(ec2[i], 0x100 + k as u64));
            }
            for (k, v) in e.t.iter().enumerate() {
                inc[*v].push(h2(ec2[i], 0x200_0000 + k as u64));
            }
        }
        for v in 0..n {
            inc[v].sort_unstable();
            let mut c = nc[v];
            for x in &inc[v] {
                c = h2(c, *x);
            }
            nc[v] = c;
        }
        ec = ec2;
    }
    (nc, ec)
}

struct Search<'a> {
    a: &'a Plain,
    b: &'a Plain,
    anc: Vec<u64>,
    bnc: Vec<u64>,
    nm: Vec<usize>, // a node -> b node or MAX
    used: Vec<bool>,
    eused: Vec<bool>,
    order: Vec<usize>,
    cands: Vec<Vec<usize>>,
    budget: usize,
    out_of_budget: bool,
}

impl<'a> Search<'a> {
    fn bind(&mut self, x: usize, y: usize, trail: &mut Vec<usize>) -> bool {
        if self.nm[x] != usize::MAX {
            return self.nm[x] == y;
        }
        if self.used[y] || self.a.w[x] != self.b.w[y] || self.anc[x] != self.bnc[y] {
            return false;
        }
        self.nm[x] = y;
        self.used[y] = true;
        trail.push(x);
        true
    }
    fn undo(&mut self, trail: Vec<usize>) {
        for x in trail {
            let y = self.nm[x];
            self.nm[x] = usize::MAX;
            self.used[y] = false;
        }
    }
    fn rec(&mut self, k: usize) -> bool {
        if k == self.order.len() {
            // nodes touched by no edge and no interface: compare label multisets
            let mut la: Vec<u32> = (0..self.a.w.len()).filter(|x| self.nm[*x] == usize::MAX).map(|x| self.a.w[x]).collect();
            let mut lb: Vec<u32> = (0..self.b.w.len()).filter(|y| !self.used[*y]).map(|y| self.b.w[y]).collect();
            la.sort_unstable();
            lb.sort_unstable();
            return la == lb;
        }
        let i = self.order[k];
        let cands = self.cands[i].clone();
        for j in cands {
            if self.eused[j] {
                continue;
            }
            if self.budget == 0 {
                self.out_of_budget = true;
                return false;
            }
            self.budget -= 1;
            let (ea, eb) = (&self.a.e[i], &self.b.e[j]);
            let mut trail = vec![];
            let mut ok = true;
            let pairs: Vec<(usize, usize)> = ea.s.iter().copied().zip(eb.s.iter().copied()).chain(ea.t.iter().copied().zip(eb.t.iter().copied())).collect();
            for (x, y) in pairs {
                if !self.bind(x, y, &mut trail) {
                    ok = false;
                    break;
                }
            }
            if ok {
                self.eused[j] = true;
                if self.rec(k + 1) {
                    return true;
                }
                self.eused[j] = false;
                if self.out_of_budget {
                    self.undo(trail);
                    return false;
                }
            }
            self.undo(trail);
        }
        false
    }
}

pub fn iso(a: &Plain, b: &Plain) -> Iso {
    iso_budget(a, b, ISO_BUDGET)
}

pub fn iso_budget(a: &Plain, b: &Plain, budget: usize) -> Iso {
    if a.w.len() != b.w.len() || a.e.len() != b.e.len() || a.s.len() != b.s.len() || a.t.len() != b.t.len() {
        return Iso::No;
    }
    let (anc, aec) = colours(a, 3);
    let (bnc, bec) = colours(b, 3);
    {
        let (mut x, mut y) = (anc.clone(), bnc.clone());
        x.sort_unstable();
        y.sort_unstable();
        if x != y {
            return Iso::No;
        }
        let (mut x, mut y) = (aec.clone(), bec.clone());
        x.sort_unstable();
        y.sort_unstable();
        if x != y {
            return Iso::No;
        }
    }
    let n = a.w.len();
    let m = a.e.len();
    let cands: Vec<Vec<usize>> = (0..m)
        .map(|i| (0..m).filter(|j| aec[i] == bec[*j] && a.e[i].l == b.e[*j].l && a.e[i].s.len() == b.e[*j].s.len() && a.e[i].t.len() == b.e[*j].t.len()).collect())
        .collect();
    let mut order: Vec<usize> = (0..m).collect();
    order.sort_by_key(|i| cands[*i].len());
    let mut st = Search { a, b, anc, bnc, nm: vec![usize::MAX; n], used: vec![false; n], eused: vec![false; m], order, cands, budget, out_of_budget: false };
    // pin the interfaces position by position
    let mut trail = vec![];
    let pins: Vec<(usize, usize)> = a.s.iter().copied().zip(b.s.iter().copied()).chain(a.t.iter().copied().zip(b.t.iter().copied())).collect();
    for (x, y) in pins {
        if !st.bind(x, y, &mut trail) {
            return Iso::No;
        }
    }
    if st.rec(0) {
        Iso::Yes
    } else if st.out_of_budget {
        Iso::Undecided
    } else {
        Iso::No
    }
}

/// Straightforward exponential reference used only by `selftest` to cross-check `iso` on tiny
/// inputs: tries every node bijection and every edge bijection.
pub fn iso_bruteforce(a: &Plain, b: &Plain) -> bool {
    if a.w.len() != b.w.len() || a.e.len() != b.e.len() || a.s.len() != b.s.len() || a.t.len() != b.t.len() {
        return false;
    }
    let n = a.w.len();
    let mut perm: Vec<usize> = (0..n).collect();
    fn next_perm(p: &mut Vec<usize>) -> bool {
        let n = p.len();
        if n < 2 {
            return false;
        }
        let mut i = n - 1;
        while i > 0 && p[i - 1] >= p[i] {
            i -= 1;
        }
        if i == 0 {
            return false;
        }
        let mut j = n - 1;
        while p[j] <= p[i - 1] {
            j -= 1;
        }
        p.swap(i - 1, j);
        p[i..].reverse();
        true
    }
    loop {
        let ok_nodes = (0..n).all(|v| a.w[v] == b.w[perm[v]])
            && a.s.iter().zip(&b.s).all(|(x, y)| perm[*x] == *y)
            && a.t.iter().zip(&b.t).all(|(x, y)| perm[*x] == *y);
        if ok_nodes {
            // edges of a mapped through perm must equal edges of b as multisets
            let mut ea: Vec<(u32, Vec<usize>, Vec<usize>)> = a.e.iter().map(|e| (e.l, e.s.iter().map(|v| perm[*v]).collect(), e.t.iter().map(|v| perm[*v]).collect())).collect();
            let mut eb: Vec<(u32, Vec<usize>, Vec<usize>)> = b.e.iter().map(|e| (e.l, e.s.clone(), e.t.clone())).collect();
            ea.sort();
            eb.sort();
            if ea == eb {
                return true;
            }
        }
        if !next_perm(&mut perm) {
            return false;
        }
    }
}
