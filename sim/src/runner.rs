//! The simulation driver: seeded search over (workload, schedule) runs on 16 workers, verdict
//! reduction independent of the worker count, minimisation, replay files, evidence.

use crate::rng::{hash_str, mix, Rng};
use crate::sched::{self, Decision, Policy, SchedStats, ALL_VECLIKE, KIND_NAMES, N_KINDS};
use serde::{de::DeserializeOwned, Deserialize, Serialize};
use serde_json::{json, Value};
use std::cell::RefCell;
use std::collections::{BTreeMap, HashSet};
use std::panic::{catch_unwind, AssertUnwindSafe};
use std::sync::atomic::{AtomicU64, Ordering};
use std::sync::Mutex;

#[derive(Clone, Copy, PartialEq, Eq, Debug)]
pub enum Tier {
    Quick,
    Thorough,
}
impl Tier {
    pub fn name(&self) -> &'static str {
        match self {
            Tier::Quick => "quick",
            Tier::Thorough => "thorough",
        }
    }
}

/// run count for a tier: `base` is the quick count of the release profile; the debug profile
/// (much slower per run) gets an eighth; the thorough tier multiplies by 20
pub fn scaled(base: u64, tier: Tier) -> u64 {
    let b = if cfg!(debug_assertions) { base / 8 } else { base };
    match tier {
        Tier::Quick => b,
        Tier::Thorough => b * 20,
    }
}

pub const PROFILE: &str = if cfg!(debug_assertions) { "dbg" } else { "rel" };

#[derive(Clone, Debug, Serialize, Deserialize, PartialEq)]
pub struct Violation {
    /// stable name of the violated clause (kept fixed during minimisation)
    pub class: String,
    pub detail: String,
}
pub fn viol<T>(class: &str, detail: String) -> Result<T, Violation> {
    Err(Violation { class: class.to_string(), detail })
}

// ------------------------------------------------------------------------------------------
// panic capture

#[derive(Clone, Debug, Default)]
pub struct PanicInfo {
    pub msg: String,
    pub loc: String,
}
thread_local! {
    static LAST_PANIC: RefCell<Option<PanicInfo>> = RefCell::new(None);
}

pub fn install_panic_hook() {
    std::panic::set_hook(Box::new(|info| {
        let msg = if let Some(s) = info.payload().downcast_ref::<&str>() {
            s.to_string()
        } else if let Some(s) = info.payload().downcast_ref::<String>() {
            s.clone()
        } else if let Some(w) = info.payload().downcast_ref::<sched::Watchdog>() {
            format!("WATCHDOG: call did not return within {} device steps", w.0)
        } else if let Some(c) = info.payload().downcast_ref::<sched::DeviceContract>() {
            format!("DEVICE-CONTRACT: {}", c.0)
        } else {
            "<non-string panic>".to_string()
        };
        let loc = info.location().map(|l| format!("{}:{}", l.file(), l.line())).unwrap_or_default();
        LAST_PANIC.with(|p| *p.borrow_mut() = Some(PanicInfo { msg, loc }));
    }));
}
fn take_panic() -> PanicInfo {
    LAST_PANIC.with(|p| p.borrow_mut().take()).unwrap_or_default()
}
/// file (without line) of a panic location, for stable violation classes
fn loc_file(loc: &str) -> String {
    let f = loc.rsplit_once(':').map(|x| x.0).unwrap_or(loc);
    f.trim_start_matches("/repo/").to_string()
}

// ------------------------------------------------------------------------------------------
// per-run execution context

pub const DEFAULT_BUDGET: u64 = 200_000;

pub struct Exec {
    pub sched_rng: Rng,
    pub probes: BTreeMap<&'static str, u64>,
    pub states: Vec<u64>,
    pub nontrivial: bool,
    pub workload_fp: u64,
    pub iso_undecided: u64,
    seg_no: u64,
}

impl Exec {
    pub fn new(sched_seed: u64) -> Exec {
        Exec { sched_rng: Rng::new(sched_seed), probes: BTreeMap::new(), states: vec![], nontrivial: false, workload_fp: 0, iso_undecided: 0, seg_no: 0 }
    }
    #[inline]
    pub fn probe(&mut self, name: &'static str) {
        *self.probes.entry(name).or_insert(0) += 1;
    }
    pub fn probe_n(&mut self, name: &'static str, n: u64) {
        *self.probes.entry(name).or_insert(0) += n;
    }
    pub fn probe_if(&mut self, c: bool, name: &'static str) {
        if c {
            self.probe(name);
        }
    }
    /// real device: no choice point may be reached
    pub fn seg_vec(&mut self) {
        self.seg_no += 1;
        sched::segment_off();
    }
    /// simulated device taking the decisions the Vec backend would take (fault-free control)
    pub fn seg_control(&mut self) {
        self.seg_no += 1;
        sched::segment(ALL_VECLIKE, 0);
    }
    /// simulated device under given policies
    pub fn seg_policies(&mut self, p: [Policy; N_KINDS]) {
        self.seg_no += 1;
        let seed = self.sched_rng.next();
        sched::segment(p, seed);
    }
    /// simulated device under a swarm-drawn perturbation: everything random, one kind alone
    /// (for attribution), or a fixed adversarial policy per kind.
    pub fn seg_perturbed(&mut self) -> [Policy; N_KINDS] {
        let p = draw_policies(&mut self.sched_rng);
        self.seg_policies(p);
        p
    }

    /// human-readable name of the current simulated configuration
    pub fn cfg_name(&self, pol: &[Policy; N_KINDS]) -> String {
        if sched::is_replay() {
            "sim/replayed-schedule".to_string()
        } else {
            format!("sim/perturbed {:?}", pol)
        }
    }

    /// Run library code.  A panic is a violation of class `<what>:panic`.
    pub fn lib<T>(&mut self, what: &str, f: impl FnOnce() -> T) -> Result<T, Violation> {
        self.lib_budget(what, DEFAULT_BUDGET, f)
    }
    pub fn lib_budget<T>(&mut self, what: &str, budget: u64, f: impl FnOnce() -> T) -> Result<T, Violation> {
        match self.lib_try(budget, f) {
            Ok(x) => Ok(x),
            Err(p) => {
                if p.msg.starts_with("WATCHDOG") {
                    viol(&format!("{}:no-return", what), p.msg)
                } else {
                    viol(&format!("{}:panic", what), format!("panicked at {} ({}): {}", loc_file(&p.loc), p.loc, p.msg))
                }
            }
        }
    }
    /// Run library code where a panic is an acceptable outcome (e.g. a documented rejection).
    pub fn lib_try<T>(&mut self, budget: u64, f: impl FnOnce() -> T) -> Result<T, PanicInfo> {
        sched::arm(budget);
        let r = catch_unwind(AssertUnwindSafe(f));
        sched::arm(u64::MAX);
        r.map_err(|_| take_panic())
    }
}

pub fn draw_policies(r: &mut Rng) -> [Policy; N_KINDS] {
    let nonvec = [Policy::Reverse, Policy::Rotate, Policy::Random, Policy::ByLargest];
    match r.below(10) {
        0..=3 => [Policy::Random; N_KINDS],
        4..=6 => {
            let mut p = ALL_VECLIKE;
            p[r.below(N_KINDS)] = *r.pick(&nonvec);
            p
        }
        _ => {
            let mut p = ALL_VECLIKE;
            for k in 0..N_KINDS {
                p[k] = *r.pick(&nonvec);
            }
            p
        }
    }
}

// ------------------------------------------------------------------------------------------
// the Check trait

pub trait Check: Sync {
    type Case: Serialize + DeserializeOwned + Clone + Send + 'static;
    const ID: &'static str;
    /// number of simulated runs for a tier in this build profile
    fn runs(tier: Tier) -> u64;
    fn generate(r: &mut Rng, tier: Tier) -> Self::Case;
    fn execute(case: &Self::Case, ex: &mut Exec) -> Result<(), Violation>;
    fn shrink(case: &Self::Case) -> Vec<Self::Case>;
    fn rule() -> &'static str;
    fn assumptions() -> Vec<&'static str>;
    /// names of reach probes that must be non-zero in a thorough run (selftest)
    fn required_probes() -> Vec<&'static str> {
        vec![]
    }
    /// unusually large, structured workloads (size thresholds, recursion depth).  Each one is executed
    /// in a child process on a thread with the default 2 MiB stack, so that a stack overflow or abort
    /// of the library is observed as a violation instead of killing the simulator.
    fn stress(_tier: Tier) -> Vec<Self::Case> {
        vec![]
    }
    fn components() -> Value;
}

pub struct RunOut {
    pub verdict: Result<(), Violation>,
    pub harness_error: Option<String>,
    pub ex: Exec,
    pub stats: SchedStats,
    pub trace: Vec<Decision>,
}

pub fn run_case<C: Check>(case: &C::Case, sched_seed: u64, replay: Option<Vec<Decision>>, store: bool) -> RunOut {
    sched::begin_run(store, replay);
    let mut ex = Exec::new(sched_seed);
    let r = catch_unwind(AssertUnwindSafe(|| C::execute(case, &mut ex)));
    let (stats, trace) = sched::end_run();
    match r {
        Ok(v) => RunOut { verdict: v, harness_error: None, ex, stats, trace },
        Err(_) => {
            let p = take_panic();
            RunOut { verdict: Ok(()), harness_error: Some(format!("unguarded panic at {}: {}", p.loc, p.msg)), ex, stats, trace }
        }
    }
}

#[derive(Clone, Debug)]
pub struct Opts {
    pub tier: Tier,
    pub seed: u64,
    pub workers: usize,
    pub runs_override: Option<u64>,
    pub verif_dir: String,
    pub merge_with: Option<String>,
    pub part_only: bool,
    pub records_out: Option<String>,
}

fn stream_seed(seed: u64, id: &str) -> u64 {
    mix(mix(seed, hash_str(id)), hash_str(PROFILE))
}
pub fn run_seeds(seed: u64, id: &str, index: u64) -> (u64, u64) {
    let s = mix(stream_seed(seed, id), index);
    (mix(s, 1), mix(s, 2)) // (workload seed, schedule seed)
}

#[derive(Serialize, Deserialize, Clone, Debug)]
pub struct ReplayFile {
    pub property: String,
    pub profile: String,
    pub verif_seed: u64,
    pub run_index: u64,
    pub sched_seed: u64,
    pub minimised: bool,
    pub violation: Violation,
    pub case: Value,
    pub trace: Vec<Decision>,
    pub note: String,
}

#[derive(Deserialize, Clone, Debug)]
pub struct KnownFinding {
    pub property: String,
    pub status: String,
    #[serde(default)]
    pub commit: Option<String>,
    pub signature: String,
    pub text: String,
}

pub fn load_known(verif_dir: &str) -> Result<Vec<KnownFinding>, String> {
    let p = format!("{}/known_findings.json", verif_dir);
    match std::fs::read_to_string(&p) {
        Ok(s) => serde_json::from_str(&s).map_err(|e| format!("{}: {}", p, e)),
        Err(_) => Ok(vec![]),
    }
}
fn matches_known(known: &[KnownFinding], id: &str, v: &Violation) -> bool {
    let text = format!("{} | {}", v.class, v.detail);
    known.iter().any(|k| k.property == id && k.status == "known" && text.contains(&k.signature))
}

#[derive(Default)]
struct WorkerAcc {
    runs: u64,
    nontrivial: u64,
    probes: BTreeMap<&'static str, u64>,
    distinct: HashSet<u64>,
    states: HashSet<u64>,
    capped: bool,
    launches: u64,
    max_call_launches: u64,
    points: [u64; N_KINDS],
    fired: [u64; N_KINDS],
    effective: [u64; N_KINDS],
    fps: HashSet<u64>,
    iso_undecided: u64,
    known_hits: u64,
    harness_errors: Vec<(u64, String)>,
    records: Vec<(u64, u64, u64, u64, u8)>,
}

const DISTINCT_CAP_PER_WORKER: usize = 1_500_000;

/// Drive one check.  Returns the process exit code.
pub fn drive<C: Check>(o: &Opts) -> i32 {
    let t0 = std::time::Instant::now();
    let id = C::ID;
    println!("ohsim check {} tier={} profile={} VERIF_SEED={} workers={}", id, o.tier.name(), PROFILE, o.seed, o.workers);
    let known = match load_known(&o.verif_dir) {
        Ok(k) => k,
        Err(e) => {
            eprintln!("HARNESS-ERROR: {}", e);
            return 2;
        }
    };
    let total = o.runs_override.unwrap_or_else(|| C::runs(o.tier));
    let next = AtomicU64::new(0);
    let min_fail = AtomicU64::new(u64::MAX);
    let fail: Mutex<Option<(u64, Violation)>> = Mutex::new(None);
    let accs: Mutex<Vec<WorkerAcc>> = Mutex::new(vec![]);
    let want_records = o.records_out.is_some();

    // wall-clock stall detector: the only use of a real clock that can influence the outcome, and it can
    // only ever produce a harness error (exit 2), never a VIOLATION.  A run on the real Vec backend that does
    // not return (the launch watchdog only exists on the simulated device) ends up here.
    let progress = AtomicU64::new(0);
    let finished = std::sync::atomic::AtomicBool::new(false);
    let workers_left = AtomicU64::new(o.workers.max(1) as u64);
    std::thread::scope(|sc| {
        sc.spawn(|| {
            let mut last = 0u64;
            let mut idle = 0u32;
            while !finished.load(Ordering::Relaxed) {
                std::thread::sleep(std::time::Duration::from_millis(500));
                let now = progress.load(Ordering::Relaxed);
                if now == last {
                    idle += 1;
                } else {
                    idle = 0;
                    last = now;
                }
                if idle >= 360 {
                    eprintln!("HARNESS-ERROR: property={} no simulated run completed for 180 s of wall-clock time (a call on the real backend does not return?); last started run index <= {}", id, next.load(Ordering::Relaxed));
                    std::process::exit(2);
                }
            }
        });
        for _ in 0..o.workers.max(1) {
            sc.spawn(|| {
                let mut acc = WorkerAcc::default();
                loop {
                    let i = next.fetch_add(1, Ordering::Relaxed);
                    if i >= total || i > min_fail.load(Ordering::Relaxed) {
                        break;
                    }
                    let (wseed, sseed) = run_seeds(o.seed, id, i);
                    let mut r = Rng::new(wseed);
                    let case = C::generate(&mut r, o.tier);
                    let out = run_case::<C>(&case, sseed, None, false);
                    progress.fetch_add(1, Ordering::Relaxed);
                    acc.runs += 1;
                    if let Some(e) = out.harness_error {
                        acc.harness_errors.push((i, e));
                        min_fail.fetch_min(i, Ordering::Relaxed);
                        continue;
                    }
                    if want_records {
                        acc.records.push((i, out.ex.workload_fp, out.stats.sched_fp, out.stats.log_hash, out.verdict.is_err() as u8));
                    }
                    acc.launches += out.stats.launches;
                    acc.max_call_launches = acc.max_call_launches.max(out.stats.max_call_launches);
                    for k in 0..N_KINDS {
                        acc.points[k] += out.stats.points[k];
                        acc.fired[k] += out.stats.fired[k];
                        acc.effective[k] += out.stats.effective[k];
                    }
                    acc.iso_undecided += out.ex.iso_undecided;
                    for (k, v) in out.ex.probes.iter() {
                        *acc.probes.entry(k).or_insert(0) += v;
                    }
                    if out.ex.nontrivial {
                        acc.nontrivial += 1;
                        if acc.distinct.len() < DISTINCT_CAP_PER_WORKER {
                            acc.distinct.insert(mix(out.ex.workload_fp, out.stats.sched_fp));
                            acc.fps.insert(out.stats.sched_fp);
                        } else {
                            acc.capped = true;
                        }
                    }
                    if acc.states.len() < DISTINCT_CAP_PER_WORKER {
                        for s in &out.ex.states {
                            acc.states.insert(*s);
                        }
                    }
                    if let Err(v) = out.verdict {
                        if matches_known(&known, id, &v) {
                            acc.known_hits += 1;
                        } else {
                            let prev = min_fail.fetch_min(i, Ordering::Relaxed);
                            if i < prev {
                                let mut f = fail.lock().unwrap();
                                if f.as_ref().map_or(true, |(j, _)| i < *j) {
                                    *f = Some((i, v));
                                }
                            }
                        }
                    }
                }
                accs.lock().unwrap().push(acc);
                if workers_left.fetch_sub(1, Ordering::Relaxed) == 1 {
                    finished.store(true, Ordering::Relaxed);
                }
            });
        }
    });

    // ---- reduce (order independent: sums, unions, minima)
    let accs = accs.into_inner().unwrap();
    let mut tot = WorkerAcc::default();
    for a in accs {
        tot.runs += a.runs;
        tot.nontrivial += a.nontrivial;
        tot.launches += a.launches;
        tot.max_call_launches = tot.max_call_launches.max(a.max_call_launches);
        tot.iso_undecided += a.iso_undecided;
        tot.known_hits += a.known_hits;
        tot.capped |= a.capped;
        for k in 0..N_KINDS {
            tot.points[k] += a.points[k];
            tot.fired[k] += a.fired[k];
            tot.effective[k] += a.effective[k];
        }
        for (k, v) in a.probes {
            *tot.probes.entry(k).or_insert(0) += v;
        }
        tot.distinct.extend(a.distinct);
        tot.states.extend(a.states);
        tot.fps.extend(a.fps);
        tot.harness_errors.extend(a.harness_errors);
        tot.records.extend(a.records);
    }
    if let Some(path) = &o.records_out {
        tot.records.sort();
        let mut s = String::new();
        for r in &tot.records {
            s.push_str(&format!("{} {:016x} {:016x} {:016x} {}\n", r.0, r.1, r.2, r.3, r.4));
        }
        let _ = std::fs::write(path, s);
    }
    if !tot.harness_errors.is_empty() {
        tot.harness_errors.sort();
        let (i, e) = &tot.harness_errors[0];
        eprintln!("HARNESS-ERROR: property={} run={} {}", id, i, e);
        return 2;
    }

    let failure = fail.into_inner().unwrap();
    let wall = t0.elapsed().as_secs_f64();

    // ---- samples: the first runs of the stream, re-executed with the decision trace stored
    let mut samples = vec![];
    for i in 0..total.min(3) {
        let (wseed, sseed) = run_seeds(o.seed, id, i);
        let mut r = Rng::new(wseed);
        let case = C::generate(&mut r, o.tier);
        let out = run_case::<C>(&case, sseed, None, true);
        let tr: Vec<&Decision> = out.trace.iter().filter(|d| !d.choice.is_empty()).take(12).collect();
        samples.push(json!({
            "run_index": i,
            "case": serde_json::to_value(&case).unwrap_or(Value::Null),
            "kernel_launches": out.stats.launches,
            "choice_points": out.stats.points.iter().sum::<u64>(),
            "non_default_decisions_first_12": tr,
            "verdict": if out.verdict.is_ok() { "held" } else { "violated" },
        }));
    }

    let mut exit = 0;
    let mut violations = 0;
    let mut replay_path = String::new();
    let mut stress_run = 0u64;
    let mut failure = failure;
    let mut stress_failure: Option<String> = None;
    if failure.is_none() && o.runs_override.is_none() {
        let n_stress = C::stress(o.tier).len();
        for k in 0..n_stress {
            stress_run += 1;
            match run_stress_child::<C>(o, k) {
                Ok(None) => {}
                Ok(Some(path)) => {
                    stress_failure = Some(path);
                    break;
                }
                Err(e) => {
                    eprintln!("HARNESS-ERROR: {}", e);
                    return 2;
                }
            }
        }
    }
    if let Some(p) = stress_failure {
        violations = 1;
        exit = 1;
        replay_path = p;
        failure = None;
    }
    if let Some((i, v)) = failure {
        violations = 1;
        exit = 1;
        match report_failure::<C>(o, i, v) {
            Ok(p) => replay_path = p,
            Err(e) => {
                eprintln!("HARNESS-ERROR: {}", e);
                return 2;
            }
        }
    }

    // ---- evidence
    let kinds = |a: &[u64; N_KINDS]| {
        let mut m = serde_json::Map::new();
        for k in 0..N_KINDS {
            m.insert(KIND_NAMES[k].to_string(), json!(a[k]));
        }
        Value::Object(m)
    };
    let probes: serde_json::Map<String, Value> = tot.probes.iter().map(|(k, v)| (k.to_string(), json!(v))).collect();
    let part = json!({
        "profile": PROFILE,
        "evaluations": tot.runs,
        "nontrivial_runs": tot.nontrivial,
        "distinct_nontrivial": tot.distinct.len(),
        "distinct_counting_capped": tot.capped,
        "distinct_schedule_fingerprints": tot.fps.len(),
        "distinct_model_states": tot.states.len(),
        "simulated_time_kernel_launches": tot.launches,
        "max_launches_in_one_call": tot.max_call_launches,
        "choice_points": kinds(&tot.points),
        "faults_fired_non_default_decisions": kinds(&tot.fired),
        "faults_effective_output_changed": kinds(&tot.effective),
        "isomorphism_undecided": tot.iso_undecided,
        "known_finding_hits": tot.known_hits,
        "stress_cases_run_in_child_processes": stress_run,
        "probes": probes,
        "wall_s": wall,
        "runs_per_hour": if wall > 0.0 { (tot.runs as f64 / wall * 3600.0) as u64 } else { 0 },
        "samples": samples,
        "violations": violations,
    });
    let parts_dir = format!("{}/evidence/.parts", o.verif_dir);
    let _ = std::fs::create_dir_all(&parts_dir);
    let part_path = format!("{}/{}.{}.json", parts_dir, id, PROFILE);
    if let Err(e) = std::fs::write(&part_path, serde_json::to_string_pretty(&part).unwrap()) {
        eprintln!("HARNESS-ERROR: cannot write {}: {}", part_path, e);
        return 2;
    }
    if !o.part_only {
        let mut parts = vec![part.clone()];
        if let Some(m) = &o.merge_with {
            match std::fs::read_to_string(m).ok().and_then(|s| serde_json::from_str::<Value>(&s).ok()) {
                Some(p) => parts.push(p),
                None => {
                    eprintln!("HARNESS-ERROR: cannot read evidence part {}", m);
                    return 2;
                }
            }
        }
        if let Err(e) = write_evidence::<C>(o, &parts) {
            eprintln!("HARNESS-ERROR: {}", e);
            return 2;
        }
    }

    for k in known.iter().filter(|k| k.property == id && k.status == "known") {
        println!("KNOWN-FINDING: property={} {} [{}]", id, k.text, k.signature);
    }
    println!(
        "{} {}: runs={} nontrivial={} distinct={} launches={} fired={:?} undecided_iso={} wall={:.1}s",
        id, PROFILE, tot.runs, tot.nontrivial, tot.distinct.len(), tot.launches, tot.fired, tot.iso_undecided, wall
    );
    if exit == 1 {
        println!("VIOLATION property={} replay={}", id, replay_path);
    }
    exit
}

fn sum_u64(parts: &[Value], key: &str) -> u64 {
    parts.iter().map(|p| p[key].as_u64().unwrap_or(0)).sum()
}

fn write_evidence<C: Check>(o: &Opts, parts: &[Value]) -> Result<(), String> {
    let id = C::ID;
    let mut samples = vec![];
    for p in parts {
        if let Some(a) = p["samples"].as_array() {
            for s in a.iter().take(2) {
                let mut s = s.clone();
                s["profile"] = p["profile"].clone();
                samples.push(s);
            }
        }
    }
    let mut per_profile = serde_json::Map::new();
    for p in parts {
        let mut q = p.clone();
        q.as_object_mut().unwrap().remove("samples");
        per_profile.insert(p["profile"].as_str().unwrap_or("?").to_string(), q);
    }
    let wall: f64 = parts.iter().map(|p| p["wall_s"].as_f64().unwrap_or(0.0)).sum();
    let evaluations = sum_u64(parts, "evaluations");
    let ev = json!({
        "property_id": id,
        "tier": o.tier.name(),
        "seed": o.seed,
        "level": "exploration",
        "coverage": {
            "evaluations": evaluations,
            // distinct (workload fingerprint, schedule fingerprint) pairs; the two build profiles draw
            // from different seed streams and are counted in separate hash sets, then added
            "distinct_nontrivial": sum_u64(parts, "distinct_nontrivial"),
            "rule": C::rule(),
            "samples": samples,
            "simulated_runs": evaluations,
            "seeds": format!("VERIF_SEED={} -> stream H(seed, {}, profile) -> per-run (workload seed, schedule seed) = H(stream, run index); run indices 0..{}", o.seed, id, evaluations),
            "runs_per_hour": if wall > 0.0 { (evaluations as f64 / wall * 3600.0) as u64 } else { 0 },
            "simulated_time": {"unit": "device kernel launches (logical clock)", "total": sum_u64(parts, "simulated_time_kernel_launches")},
            "fault_kinds": "device open outcomes: sort_ties, cc_numbering, sparse_keys, scatter_fill (see per_profile.*.faults_fired_*); check-specific faults are listed under per_profile.*.probes",
            "per_profile": per_profile,
            "components": C::components(),
        },
        "assumptions": C::assumptions(),
        "wall_s": wall,
        "violations": sum_u64(parts, "violations"),
    });
    let path = format!("{}/evidence/{}.json", o.verif_dir, id);
    std::fs::write(&path, serde_json::to_string_pretty(&ev).unwrap()).map_err(|e| format!("cannot write {}: {}", path, e))
}

// ------------------------------------------------------------------------------------------
// failure handling: minimise, write the replay file, confirm it in a fresh process

const MINIMISE_BUDGET: usize = 2000;

fn fails_same<C: Check>(case: &C::Case, trace: &[Decision], class: &str, execs: &mut usize) -> Option<(Violation, Vec<Decision>)> {
    *execs += 1;
    let out = run_case::<C>(case, 0, Some(trace.to_vec()), true);
    if out.harness_error.is_some() {
        return None;
    }
    match out.verdict {
        Err(v) if v.class == class => Some((v, out.trace)),
        _ => None,
    }
}

pub fn minimise<C: Check>(case: C::Case, trace: Vec<Decision>, v: Violation) -> (C::Case, Vec<Decision>, Violation, usize) {
    let class = v.class.clone();
    let (mut case, mut trace, mut v) = (case, trace, v);
    let mut execs = 0usize;
    loop {
        let mut progress = false;
        // 1a. schedule: a whole kind back to VecLike
        for k in 0..N_KINDS {
            if execs >= MINIMISE_BUDGET {
                break;
            }
            if trace.iter().any(|d| d.kind == k && !d.choice.is_empty()) {
                let t2: Vec<Decision> = trace.iter().map(|d| if d.kind == k { Decision { kind: d.kind, n: d.n, choice: vec![] } } else { d.clone() }).collect();
                if let Some((v2, t3)) = fails_same::<C>(&case, &t2, &class, &mut execs) {
                    trace = t3;
                    v = v2;
                    progress = true;
                }
            }
        }
        // 1b. schedule: single decisions back to VecLike
        let mut i = 0;
        while i < trace.len() && execs < MINIMISE_BUDGET {
            if !trace[i].choice.is_empty() {
                let mut t2 = trace.clone();
                t2[i].choice = vec![];
                if let Some((v2, t3)) = fails_same::<C>(&case, &t2, &class, &mut execs) {
                    trace = t3;
                    v = v2;
                    progress = true;
                }
            }
            i += 1;
        }
        // 2. workload
        let mut shrunk = true;
        while shrunk && execs < MINIMISE_BUDGET {
            shrunk = false;
            for cand in C::shrink(&case) {
                if execs >= MINIMISE_BUDGET {
                    break;
                }
                if let Some((v2, t3)) = fails_same::<C>(&cand, &trace, &class, &mut execs) {
                    case = cand;
                    trace = t3;
                    v = v2;
                    shrunk = true;
                    progress = true;
                    break;
                }
            }
        }
        if !progress || execs >= MINIMISE_BUDGET {
            break;
        }
    }
    (case, trace, v, execs)
}

fn report_failure<C: Check>(o: &Opts, index: u64, v0: Violation) -> Result<String, String> {
    let id = C::ID;
    let (wseed, sseed) = run_seeds(o.seed, id, index);
    let mut r = Rng::new(wseed);
    let case = C::generate(&mut r, o.tier);
    // re-execute with the trace stored (deterministic: must fail the same way)
    let out = run_case::<C>(&case, sseed, None, true);
    let v = match out.verdict {
        Err(v) if v.class == v0.class => v,
        other => return Err(format!("determinism failure: run {} of {} did not reproduce in-process ({:?} vs {:?})", index, id, other.err(), v0)),
    };
    println!("violation in run {}: [{}] {}", index, v.class, v.detail);
    let original = ReplayFile {
        property: id.into(),
        profile: PROFILE.into(),
        verif_seed: o.seed,
        run_index: index,
        sched_seed: sseed,
        minimised: false,
        violation: v.clone(),
        case: serde_json::to_value(&case).map_err(|e| e.to_string())?,
        trace: out.trace.clone(),
        note: String::new(),
    };
    let (mcase, mtrace, mv, execs) = minimise::<C>(case, out.trace, v);
    let needed: Vec<String> = {
        let mut ks: Vec<&str> = mtrace.iter().filter(|d| !d.choice.is_empty()).map(|d| KIND_NAMES[d.kind]).collect();
        ks.sort();
        ks.dedup();
        ks.iter().map(|s| s.to_string()).collect()
    };
    let note = if minimised_trace_is_empty(&mtrace) {
        format!("minimised in {} re-executions; no device choice point is reached by the minimised workload (the failure does not involve the device schedule)", execs)
    } else if needed.is_empty() {
        format!("minimised in {} re-executions; the failure is schedule-independent (occurs with every device decision VecLike)", execs)
    } else {
        format!("minimised in {} re-executions; the failure needs non-default decisions of kind(s) {:?}", execs, needed)
    };
    let minimised = ReplayFile {
        property: id.into(),
        profile: PROFILE.into(),
        verif_seed: o.seed,
        run_index: index,
        sched_seed: sseed,
        minimised: true,
        violation: mv.clone(),
        case: serde_json::to_value(&mcase).map_err(|e| e.to_string())?,
        trace: mtrace,
        note,
    };
    let dir = format!("{}/replays", o.verif_dir);
    std::fs::create_dir_all(&dir).map_err(|e| e.to_string())?;
    let base = format!("{}/{}-{}-seed{}-run{}", dir, id, PROFILE, o.seed, index);
    let opath = format!("{}.original.json", base);
    let mpath = format!("{}.json", base);
    std::fs::write(&opath, serde_json::to_string_pretty(&original).unwrap()).map_err(|e| e.to_string())?;
    std::fs::write(&mpath, serde_json::to_string_pretty(&minimised).unwrap()).map_err(|e| e.to_string())?;
    println!("minimised: [{}] {}", mv.class, mv.detail);
    println!("{}", minimised.note);
    // confirm in a fresh process
    let exe = std::env::current_exe().map_err(|e| e.to_string())?;
    let st = std::process::Command::new(exe).arg("replay").arg(&mpath).arg("--quiet").status().map_err(|e| e.to_string())?;
    match st.code() {
        Some(1) => Ok(mpath),
        c => {
            // fall back to the unminimised file if that one replays
            let exe = std::env::current_exe().map_err(|e| e.to_string())?;
            let st2 = std::process::Command::new(exe).arg("replay").arg(&opath).arg("--quiet").status().map_err(|e| e.to_string())?;
            if st2.code() == Some(1) {
                println!("note: minimised file did not replay in a fresh process (exit {:?}); reporting the original", c);
                Ok(opath)
            } else {
                Err(format!("replay of {} in a fresh process did not reproduce the violation (exit {:?})", mpath, c))
            }
        }
    }
}

fn minimised_trace_is_empty(t: &[Decision]) -> bool {
    t.is_empty()
}

fn stress_replay_path(o: &Opts, id: &str, k: usize) -> String {
    format!("{}/replays/{}-{}-seed{}-stress{}.json", o.verif_dir, id, PROFILE, o.seed, k)
}

/// parent side: run stress case k in a child process; Ok(Some(path)) = violation with replay file
fn run_stress_child<C: Check>(o: &Opts, k: usize) -> Result<Option<String>, String> {
    let id = C::ID;
    let exe = std::env::current_exe().map_err(|e| e.to_string())?;
    let mut child = std::process::Command::new(exe)
        .args(["stress", id, &k.to_string(), "--tier", o.tier.name()])
        .env("VERIF_SEED", o.seed.to_string())
        .env("VERIF_DIR", &o.verif_dir)
        .stdout(std::process::Stdio::piped())
        .stderr(std::process::Stdio::piped())
        .spawn()
        .map_err(|e| e.to_string())?;
    // wall-clock limit for a child (harness error only, never a VIOLATION): 15 minutes
    let t0 = std::time::Instant::now();
    loop {
        match child.try_wait().map_err(|e| e.to_string())? {
            Some(_) => break,
            None => {
                if t0.elapsed().as_secs() > 900 {
                    let _ = child.kill();
                    return Err(format!("stress child {} {} did not finish within 900 s of wall-clock time", id, k));
                }
                std::thread::sleep(std::time::Duration::from_millis(50));
            }
        }
    }
    let out = child.wait_with_output().map_err(|e| e.to_string())?;
    let path = stress_replay_path(o, id, k);
    match out.status.code() {
        Some(0) => Ok(None),
        Some(1) => {
            print!("{}", String::from_utf8_lossy(&out.stdout));
            Ok(Some(path))
        }
        Some(2) => Err(format!("stress child {} {}: {}", id, k, String::from_utf8_lossy(&out.stderr))),
        other => {
            // killed by a signal / aborted: the library took the process down (e.g. stack overflow)
            let case = C::stress(o.tier).into_iter().nth(k).ok_or("stress case index out of range")?;
            let stderr = String::from_utf8_lossy(&out.stderr);
            let last = stderr.lines().rev().find(|l| !l.trim().is_empty()).unwrap_or("").to_string();
            let rf = ReplayFile {
                property: id.into(),
                profile: PROFILE.into(),
                verif_seed: o.seed,
                run_index: k as u64,
                sched_seed: 0,
                minimised: false,
                violation: Violation { class: format!("{}:stress:process-aborted", id), detail: format!("child process running stress case {} ended abnormally (exit {:?}): {}", k, other, last) },
                case: serde_json::to_value(&case).map_err(|e| e.to_string())?,
                trace: vec![],
                note: "large structured workload executed in a child process on a 2 MiB thread stack; not minimised".into(),
            };
            std::fs::create_dir_all(format!("{}/replays", o.verif_dir)).map_err(|e| e.to_string())?;
            std::fs::write(&path, serde_json::to_string(&rf).unwrap()).map_err(|e| e.to_string())?;
            println!("violation in stress case {}: [{}] {}", k, rf.violation.class, rf.violation.detail);
            Ok(Some(path))
        }
    }
}

/// child side: `ohsim stress <ID> <k> --tier T`
pub fn stress_child<C: Check>(o: &Opts, k: usize) -> i32 {
    let case = match C::stress(o.tier).into_iter().nth(k) {
        Some(c) => c,
        None => {
            eprintln!("no stress case {}", k);
            return 2;
        }
    };
    let (_, sseed) = run_seeds(o.seed, C::ID, 1_000_000_000 + k as u64);
    let case2 = case.clone();
    // default thread stack (2 MiB), like any thread a user of the library would spawn
    let h = std::thread::spawn(move || {
        let out = run_case::<C>(&case2, sseed, None, true);
        (out.verdict, out.harness_error, out.trace)
    });
    let (verdict, herr, trace) = match h.join() {
        Ok(x) => x,
        Err(_) => {
            eprintln!("stress thread panicked outside the guarded region");
            return 2;
        }
    };
    if let Some(e) = herr {
        eprintln!("{}", e);
        return 2;
    }
    match verdict {
        Ok(()) => 0,
        Err(v) => {
            let rf = ReplayFile {
                property: C::ID.into(),
                profile: PROFILE.into(),
                verif_seed: o.seed,
                run_index: k as u64,
                sched_seed: sseed,
                minimised: false,
                violation: v.clone(),
                case: serde_json::to_value(&case).unwrap_or(Value::Null),
                trace,
                note: "large structured workload (stress case); not minimised".into(),
            };
            let path = stress_replay_path(o, C::ID, k);
            let _ = std::fs::create_dir_all(format!("{}/replays", o.verif_dir));
            if std::fs::write(&path, serde_json::to_string(&rf).unwrap()).is_err() {
                eprintln!("cannot write {}", path);
                return 2;
            }
            let d: String = v.detail.chars().take(600).collect();
            println!("violation in stress case {}: [{}] {}", k, v.class, d);
            1
        }
    }
}

/// `replay <file>`: feed the recorded workload and decisions back; exit 1 iff the same violation
/// class is reproduced.
pub fn replay<C: Check>(rf: &ReplayFile, quiet: bool) -> i32 {
    if rf.profile != PROFILE {
        // the check script picks the right binary; being here is a usage error
        eprintln!("HARNESS-ERROR: replay file was recorded in profile {} but this binary is {}", rf.profile, PROFILE);
        return 2;
    }
    let case: C::Case = match serde_json::from_value(rf.case.clone()) {
        Ok(c) => c,
        Err(e) => {
            eprintln!("HARNESS-ERROR: cannot decode case: {}", e);
            return 2;
        }
    };
    let out = run_case::<C>(&case, rf.sched_seed, Some(rf.trace.clone()), true);
    if let Some(e) = out.harness_error {
        eprintln!("HARNESS-ERROR: {}", e);
        return 2;
    }
    match out.verdict {
        Err(v) => {
            if !quiet {
                println!("replayed: [{}] {}", v.class, v.detail);
                println!("kernel launches: {}, choice points: {:?}, non-default decisions: {:?}", out.stats.launches, out.stats.points, out.stats.fired);
            }
            if v.class == rf.violation.class {
                if !quiet {
                    println!("VIOLATION property={} replay=(this file) reproduced class {}", rf.property, v.class);
                }
                1
            } else {
                if !quiet {
                    println!("a different violation class than recorded ({}): still a violation", rf.violation.class);
                }
                1
            }
        }
        Ok(()) => {
            if !quiet {
                println!("not reproduced: the property held on the recorded workload and schedule");
            }
            0
        }
    }
}
