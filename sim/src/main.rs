//! ohsim — deterministic simulation with fault injection for open-hypergraphs.
//!
//!   ohsim check <ID> --tier quick|thorough [--workers N] [--runs N] [--part-only] [--merge-with F]
//!   ohsim replay <file> [--quiet]
//!   ohsim selftest [...]

pub mod checks;
pub mod dev;
pub mod gen;
pub mod graphref;
pub mod iso;
pub mod plain;
pub mod rng;
pub mod runner;
pub mod sched;
pub mod selftest;
pub mod simkind;

use runner::{drive, replay, stress_child, Check, Opts, ReplayFile, Tier};

macro_rules! dispatch {
    ($id:expr, $f:ident, $($arg:expr),*) => {
        match $id {
            "C01" => Some($f::<checks::c01::C01>($($arg),*)),
            "C03" => Some($f::<checks::c03::C03>($($arg),*)),
            "C04" => Some($f::<checks::c04::C04>($($arg),*)),
            "C05" => Some($f::<checks::c05::C05>($($arg),*)),
            "C06" => Some($f::<checks::c06::C06>($($arg),*)),
            "C09" => Some($f::<checks::hist::C09>($($arg),*)),
            "C11" => Some($f::<checks::hist::C11>($($arg),*)),
            "C12" => Some($f::<checks::c12::C12>($($arg),*)),
            "C14" => Some($f::<checks::c14::C14>($($arg),*)),
            "C15" => Some($f::<checks::c15::C15>($($arg),*)),
            "C16" => Some($f::<checks::c16::C16>($($arg),*)),
            "C17" => Some($f::<checks::c17::C17>($($arg),*)),
            "C18" => Some($f::<checks::c18::C18>($($arg),*)),
            "C19" => Some($f::<checks::c19::C19>($($arg),*)),
            "C20" => Some($f::<checks::c20::C20>($($arg),*)),
            _ => None,
        }
    };
}

pub const ALL_IDS: &[&str] = &["C01", "C03", "C04", "C05", "C06", "C09", "C11", "C12", "C14", "C15", "C16", "C17", "C18", "C19", "C20"];

fn drive_id(id: &str, o: &Opts) -> Option<i32> {
    dispatch!(id, drive, o)
}
fn replay_id(id: &str, rf: &ReplayFile, quiet: bool) -> Option<i32> {
    dispatch!(id, replay, rf, quiet)
}
fn stress_id(id: &str, o: &Opts, k: usize) -> Option<i32> {
    dispatch!(id, stress_child, o, k)
}
pub fn required_probes(id: &str) -> Option<Vec<&'static str>> {
    fn rp<C: Check>() -> Vec<&'static str> {
        C::required_probes()
    }
    dispatch!(id, rp,)
}

fn usage() -> ! {
    eprintln!("usage: ohsim check <ID> --tier quick|thorough [--workers N] [--runs N] [--part-only] [--merge-with FILE] [--records FILE]\n       ohsim replay <file> [--quiet]\n       ohsim selftest <iso|determinism-records ...>");
    std::process::exit(2)
}

fn main() {
    runner::install_panic_hook();
    let args: Vec<String> = std::env::args().skip(1).collect();
    if args.is_empty() {
        usage();
    }
    let verif_dir = std::env::var("VERIF_DIR").unwrap_or_else(|_| "/verif".to_string());
    let seed: u64 = match std::env::var("VERIF_SEED") {
        Ok(s) if !s.trim().is_empty() => match s.trim().parse() {
            Ok(x) => x,
            Err(_) => {
                eprintln!("HARNESS-ERROR: VERIF_SEED must be an unsigned integer");
                std::process::exit(2)
            }
        },
        _ => 1,
    };
    match args[0].as_str() {
        "check" => {
            if args.len() < 2 {
                usage();
            }
            let id = args[1].clone();
            let mut o = Opts { tier: Tier::Quick, seed, workers: 16, runs_override: None, verif_dir, merge_with: None, part_only: false, records_out: None };
            if let Ok(t) = std::env::var("VERIF_TIER") {
                if t == "thorough" {
                    o.tier = Tier::Thorough;
                }
            }
            let mut i = 2;
            while i < args.len() {
                match args[i].as_str() {
                    "--tier" => {
                        i += 1;
                        o.tier = match args.get(i).map(|s| s.as_str()) {
                            Some("quick") => Tier::Quick,
                            Some("thorough") => Tier::Thorough,
                            _ => usage(),
                        };
                    }
                    "--workers" => {
                        i += 1;
                        o.workers = args.get(i).and_then(|s| s.parse().ok()).unwrap_or_else(|| usage());
                    }
                    "--runs" => {
                        i += 1;
                        o.runs_override = Some(args.get(i).and_then(|s| s.parse().ok()).unwrap_or_else(|| usage()));
                    }
                    "--merge-with" => {
                        i += 1;
                        o.merge_with = Some(args.get(i).cloned().unwrap_or_else(|| usage()));
                    }
                    "--records" => {
                        i += 1;
                        o.records_out = Some(args.get(i).cloned().unwrap_or_else(|| usage()));
                    }
                    "--part-only" => o.part_only = true,
                    _ => usage(),
                }
                i += 1;
            }
            println!("VERIF_SEED={}", seed);
            match drive_id(&id, &o) {
                Some(code) => std::process::exit(code),
                None => {
                    eprintln!("HARNESS-ERROR: unknown or unclaimed property {}", id);
                    std::process::exit(2)
                }
            }
        }
        "replay" => {
            if args.len() < 2 {
                usage();
            }
            let quiet = args.iter().any(|a| a == "--quiet");
            let text = match std::fs::read_to_string(&args[1]) {
                Ok(t) => t,
                Err(e) => {
                    eprintln!("HARNESS-ERROR: cannot read {}: {}", args[1], e);
                    std::process::exit(2)
                }
            };
            let rf: ReplayFile = match serde_json::from_str(&text) {
                Ok(r) => r,
                Err(e) => {
                    eprintln!("HARNESS-ERROR: cannot parse {}: {}", args[1], e);
                    std::process::exit(2)
                }
            };
            if args.iter().any(|a| a == "--print-profile") {
                println!("{}", rf.profile);
                std::process::exit(0);
            }
            if !args.iter().any(|a| a == "--in-process") {
                // run the replay in a child process (2 MiB thread inside): an aborting library is a reproduced violation
                let exe = std::env::current_exe().unwrap();
                let mut cmd = std::process::Command::new(exe);
                cmd.arg("replay").arg(&args[1]).arg("--in-process");
                if quiet {
                    cmd.arg("--quiet");
                }
                match cmd.status().map(|s| s.code()) {
                    Ok(Some(c)) if c == 0 || c == 1 || c == 2 => std::process::exit(c),
                    Ok(other) => {
                        if !quiet {
                            println!("replayed: the process ended abnormally ({:?}); recorded: [{}]", other, rf.violation.class);
                            println!("VIOLATION property={} replay=(this file) reproduced: process aborted", rf.property);
                        }
                        std::process::exit(1)
                    }
                    Err(e) => {
                        eprintln!("HARNESS-ERROR: cannot spawn replay child: {}", e);
                        std::process::exit(2)
                    }
                }
            }
            let rf2 = rf.clone();
            let h = std::thread::spawn(move || replay_id(&rf2.property.clone(), &rf2, quiet));
            match h.join() {
                Ok(Some(code)) => std::process::exit(code),
                _ => {
                    eprintln!("HARNESS-ERROR: unknown property {} or replay thread failed", rf.property);
                    std::process::exit(2)
                }
            }
        }
        "stress" => {
            // child side of a stress case: ohsim stress <ID> <k> --tier T
            if args.len() < 3 {
                usage();
            }
            let tier = if args.iter().any(|a| a == "thorough") { Tier::Thorough } else { Tier::Quick };
            let o = Opts { tier, seed, workers: 1, runs_override: None, verif_dir, merge_with: None, part_only: true, records_out: None };
            let k: usize = args[2].parse().unwrap_or_else(|_| usage());
            match stress_id(&args[1], &o, k) {
                Some(code) => std::process::exit(code),
                None => std::process::exit(2),
            }
        }
        "selftest" => std::process::exit(selftest::main(&args[1..])),
        _ => usage(),
    }
}
