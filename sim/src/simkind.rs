//! `SimKind`: a second `ArrayKind`, the simulated data-parallel device (a stub).
//!
//! Every primitive is the scalar loop of its documented contract, written without calling into
//! `VecArray`.  The four outcomes the contract leaves open are decided by `crate::sched`.
//! Every primitive call is one kernel launch on the run's logical clock.

use crate::sched::{self, contract, launch};
use open_hypergraphs::array::*;
use std::ops::{Add, Bound, RangeBounds, Sub};

#[derive(PartialEq, Eq, Clone, Debug)]
pub struct SimKind {}

#[derive(Clone, Debug, PartialEq)]
pub struct SimArray<T>(pub Vec<T>);

impl ArrayKind for SimKind {
    type Type<T> = SimArray<T>;
    type I = usize;
    type Index = SimArray<usize>;
    type Slice<'a, T: 'a> = &'a [T];
}

impl AsRef<SimArray<usize>> for SimArray<usize> {
    fn as_ref(&self) -> &SimArray<usize> {
        self
    }
}
impl AsMut<SimArray<usize>> for SimArray<usize> {
    fn as_mut(&mut self) -> &mut SimArray<usize> {
        self
    }
}

fn range_of<R: RangeBounds<usize>>(n: usize, r: R) -> (usize, usize) {
    let start = match r.start_bound() {
        Bound::Included(i) => *i,
        Bound::Excluded(i) => *i + 1,
        Bound::Unbounded => 0,
    };
    let end = match r.end_bound() {
        Bound::Included(i) => *i + 1,
        Bound::Excluded(i) => *i,
        Bound::Unbounded => n,
    };
    (start, end)
}

// primitive ids for the event log
const P_CONCAT: u8 = 1;
const P_FILL: u8 = 2;
const P_GATHER: u8 = 3;
const P_SCATTER: u8 = 4;
const P_SCATTER_ASSIGN: u8 = 5;
const P_SCATTER_CONST: u8 = 6;
const P_ARGSORT: u8 = 7;
const P_CUMSUM: u8 = 8;
const P_ARANGE: u8 = 9;
const P_REPEAT: u8 = 10;
const P_QUOTREM: u8 = 11;
const P_MULADD: u8 = 12;
const P_CC: u8 = 13;
const P_BINCOUNT: u8 = 14;
const P_SPARSE: u8 = 15;
const P_ZERO: u8 = 16;
const P_SUBASSIGN: u8 = 17;
const P_ADD: u8 = 18;
const P_SUB: u8 = 19;
const P_SETRANGE: u8 = 20;
const P_MAX: u8 = 21;

impl<T: Clone> Array<SimKind, T> for SimArray<T> {
    fn empty() -> Self {
        SimArray(Vec::new())
    }
    fn len(&self) -> usize {
        self.0.len()
    }
    fn from_slice(slice: &[T]) -> Self {
        SimArray(slice.to_vec())
    }
    fn concatenate(&self, other: &Self) -> Self {
        launch(P_CONCAT, self.0.len() + other.0.len());
        let mut v = Vec::with_capacity(self.0.len() + other.0.len());
        for x in &self.0 {
            v.push(x.clone());
        }
        for x in &other.0 {
            v.push(x.clone());
        }
        SimArray(v)
    }
    fn fill(x: T, n: usize) -> Self {
        launch(P_FILL, n);
        let mut v = Vec::with_capacity(n);
        for _ in 0..n {
            v.push(x.clone());
        }
        SimArray(v)
    }
    fn get(&self, i: usize) -> T {
        contract(i < self.0.len(), "get: index out of range");
        self.0[i].clone()
    }
    fn get_range<R: RangeBounds<usize>>(&self, rb: R) -> &[T] {
        let (a, b) = range_of(self.0.len(), rb);
        contract(a <= b && b <= self.0.len(), "get_range: range out of bounds");
        &self.0[a..b]
    }
    fn set_range<R: RangeBounds<usize>>(&mut self, rb: R, v: &SimArray<T>) {
        launch(P_SETRANGE, v.0.len());
        let (a, b) = range_of(self.0.len(), rb);
        contract(a <= b && b <= self.0.len(), "set_range: range out of bounds");
        contract(b - a == v.0.len(), "set_range: length mismatch");
        for (k, x) in v.0.iter().enumerate() {
            self.0[a + k] = x.clone();
        }
    }
    fn gather(&self, idx: &[usize]) -> Self {
        launch(P_GATHER, idx.len());
        let mut v = Vec::with_capacity(idx.len());
        for &i in idx {
            contract(i < self.0.len(), "gather: index out of range");
            v.push(self.0[i].clone());
        }
        SimArray(v)
    }
    fn scatter(&self, idx: &[usize], n: usize) -> Self {
        launch(P_SCATTER, n);
        contract(self.0.len() == idx.len(), "scatter: values and indices differ in length");
        if self.0.is_empty() {
            // nothing to fill the output with (mirrors the shipped backend; relied on for 0 -> 0)
            return SimArray(Vec::new());
        }
        let mut hit = vec![false; n];
        for &i in idx {
            contract(i < n, "scatter: index out of range");
            hit[i] = true;
        }
        let some_unhit = hit.iter().any(|h| !*h);
        // open outcome: what unwritten slots hold
        let k = sched::choose_index(sched::SCATTER_FILL, self.0.len(), some_unhit);
        let mut y: Vec<T> = Vec::with_capacity(n);
        for _ in 0..n {
            y.push(self.0[k].clone());
        }
        // last writer wins (pinned by the shipped backend's documentation)
        for (j, &i) in idx.iter().enumerate() {
            y[i] = self.0[j].clone();
        }
        if k != 0 && some_unhit {
            sched::note_effective(sched::SCATTER_FILL);
        }
        SimArray(y)
    }
    fn scatter_assign(&mut self, ixs: &SimArray<usize>, values: Self) {
        launch(P_SCATTER_ASSIGN, ixs.0.len());
        contract(ixs.0.len() == values.0.len(), "scatter_assign: indices and values differ in length");
        for (j, &i) in ixs.0.iter().enumerate() {
            contract(i < self.0.len(), "scatter_assign: index out of range");
            self.0[i] = values.0[j].clone();
        }
    }
    fn scatter_assign_constant(&mut self, ixs: &SimArray<usize>, arg: T) {
        launch(P_SCATTER_CONST, ixs.0.len());
        for &i in ixs.0.iter() {
            contract(i < self.0.len(), "scatter_assign_constant: index out of range");
            self.0[i] = arg.clone();
        }
    }
}

impl Add<&SimArray<usize>> for usize {
    type Output = SimArray<usize>;
    fn add(self, rhs: &SimArray<usize>) -> SimArray<usize> {
        launch(P_ADD, rhs.0.len());
        SimArray(rhs.0.iter().map(|x| x + self).collect())
    }
}
impl<T: Clone + Add<Output = T>> Add<SimArray<T>> for SimArray<T> {
    type Output = SimArray<T>;
    fn add(self, rhs: SimArray<T>) -> SimArray<T> {
        launch(P_ADD, rhs.0.len());
        contract(self.0.len() == rhs.0.len(), "add: length mismatch");
        SimArray(self.0.into_iter().zip(rhs.0.into_iter()).map(|(a, b)| a + b).collect())
    }
}
impl<T: Clone + Sub<Output = T>> Sub<SimArray<T>> for SimArray<T> {
    type Output = SimArray<T>;
    fn sub(self, rhs: SimArray<T>) -> SimArray<T> {
        launch(P_SUB, rhs.0.len());
        contract(self.0.len() == rhs.0.len(), "sub: length mismatch");
        SimArray(self.0.into_iter().zip(rhs.0.into_iter()).map(|(a, b)| a - b).collect())
    }
}

impl<T: Ord + Clone> OrdArray<SimKind, T> for SimArray<T> {
    fn argsort(&self) -> SimArray<usize> {
        let n = self.0.len();
        launch(P_ARGSORT, n);
        // open outcome: the order among equal keys.  The decision is a pre-order of the indices;
        // a stable sort of that pre-order realises every sorting permutation.
        let pre = sched::choose_perm(sched::SORT_TIES, n, None);
        let mut ix: Vec<usize> = match &pre {
            Some(p) => p.clone(),
            None => (0..n).collect(),
        };
        // insertion sort (stable), independent of std's sort
        for i in 1..ix.len() {
            let mut j = i;
            while j > 0 && self.0[ix[j - 1]] > self.0[ix[j]] {
                ix.swap(j - 1, j);
                j -= 1;
            }
        }
        if pre.is_some() {
            // effective iff the result is not the stable (index-ordered) one
            let stable = ix.windows(2).all(|w| self.0[w[0]] < self.0[w[1]] || w[0] < w[1]);
            if !stable {
                sched::note_effective(sched::SORT_TIES);
            }
        }
        SimArray(ix)
    }
}

impl NaturalArray<SimKind> for SimArray<usize> {
    fn max(&self) -> Option<usize> {
        launch(P_MAX, self.0.len());
        let mut m: Option<usize> = None;
        for &x in &self.0 {
            m = Some(match m {
                None => x,
                Some(y) => {
                    if x > y {
                        x
                    } else {
                        y
                    }
                }
            });
        }
        m
    }
    fn cumulative_sum(&self) -> Self {
        launch(P_CUMSUM, self.0.len());
        let mut v = Vec::with_capacity(self.0.len() + 1);
        let mut a = 0usize;
        v.push(0);
        for x in &self.0 {
            a += *x;
            v.push(a);
        }
        SimArray(v)
    }
    fn arange(start: &usize, stop: &usize) -> Self {
        contract(stop >= start, "arange: stop < start");
        launch(P_ARANGE, stop - start);
        let mut v = Vec::with_capacity(stop - start);
        let mut i = *start;
        while i < *stop {
            v.push(i);
            i += 1;
        }
        SimArray(v)
    }
    fn repeat(&self, x: &[usize]) -> Self {
        launch(P_REPEAT, x.len());
        contract(self.0.len() == x.len(), "repeat: length mismatch");
        let mut v = Vec::new();
        for j in 0..x.len() {
            for _ in 0..self.0[j] {
                v.push(x[j]);
            }
        }
        SimArray(v)
    }
    fn quot_rem(&self, d: usize) -> (Self, Self) {
        launch(P_QUOTREM, self.0.len());
        contract(d != 0, "quot_rem: zero denominator");
        let mut q = Vec::with_capacity(self.0.len());
        let mut r = Vec::with_capacity(self.0.len());
        for &x in &self.0 {
            let mut k = 0;
            let mut rest = x;
            // small values only in this harness; plain division would do, spelled out here
            if rest >= d {
                k = rest / d;
                rest -= k * d;
            }
            q.push(k);
            r.push(rest);
        }
        (SimArray(q), SimArray(r))
    }
    fn mul_constant_add(&self, c: usize, x: &Self) -> Self {
        launch(P_MULADD, self.0.len());
        contract(self.0.len() == x.0.len(), "mul_constant_add: length mismatch");
        let mut v = Vec::with_capacity(self.0.len());
        for j in 0..self.0.len() {
            v.push(self.0[j] * c + x.0[j]);
        }
        SimArray(v)
    }
    fn connected_components(sources: &Self, targets: &Self, n: usize) -> (Self, usize) {
        launch(P_CC, n);
        contract(sources.0.len() == targets.0.len(), "connected_components: length mismatch");
        for j in 0..sources.0.len() {
            contract(sources.0[j] < n && targets.0[j] < n, "connected_components: node out of range");
        }
        // naive min-label propagation to a fixed point (no union-find); for large inputs a
        // breadth-first search over adjacency lists (still no union-find, no recursion)
        let mut lab: Vec<usize> = (0..n).collect();
        if sources.0.len() > 4096 {
            let mut adj: Vec<Vec<usize>> = vec![Vec::new(); n];
            for j in 0..sources.0.len() {
                adj[sources.0[j]].push(targets.0[j]);
                adj[targets.0[j]].push(sources.0[j]);
            }
            let mut seen = vec![false; n];
            let mut queue: Vec<usize> = Vec::new();
            for root in 0..n {
                if seen[root] {
                    continue;
                }
                seen[root] = true;
                queue.clear();
                queue.push(root);
                let mut head = 0;
                while head < queue.len() {
                    let u = queue[head];
                    head += 1;
                    lab[u] = root;
                    for &v in &adj[u] {
                        if !seen[v] {
                            seen[v] = true;
                            queue.push(v);
                        }
                    }
                }
            }
        } else {
            loop {
            let mut changed = false;
            for j in 0..sources.0.len() {
                let (u, v) = (sources.0[j], targets.0[j]);
                let m = if lab[u] < lab[v] { lab[u] } else { lab[v] };
                if lab[u] != m {
                    lab[u] = m;
                    changed = true;
                }
                if lab[v] != m {
                    lab[v] = m;
                    changed = true;
                }
            }
            if !changed {
                break;
            }
            }
        }
        // dense numbering in first-occurrence order (= the VecLike numbering) ...
        let mut number = vec![usize::MAX; n];
        let mut k = 0;
        let mut out = Vec::with_capacity(n);
        for v in 0..n {
            let r = lab[v];
            if number[r] == usize::MAX {
                number[r] = k;
                k += 1;
            }
            out.push(number[r]);
        }
        // ... then the open outcome: which component gets which number
        let sizes: Vec<usize> = {
            let mut s = vec![0; k];
            for &c in &out {
                s[c] += 1;
            }
            s
        };
        if let Some(p) = sched::choose_perm(sched::CC_NUMBERING, k, Some(&sizes)) {
            for c in out.iter_mut() {
                *c = p[*c];
            }
            sched::note_effective(sched::CC_NUMBERING);
        }
        (SimArray(out), k)
    }
    fn bincount(&self, size: usize) -> SimArray<usize> {
        launch(P_BINCOUNT, size);
        let mut c = vec![0usize; size];
        for &i in &self.0 {
            contract(i < size, "bincount: value out of range");
            c[i] += 1;
        }
        SimArray(c)
    }
    fn sparse_bincount(&self) -> (SimArray<usize>, SimArray<usize>) {
        launch(P_SPARSE, self.0.len());
        // distinct values ascending (the VecLike order), found by repeated minimum
        let mut keys: Vec<usize> = Vec::new();
        let mut last: Option<usize> = None;
        loop {
            let mut best: Option<usize> = None;
            for &x in &self.0 {
                if last.map_or(true, |l| x > l) && best.map_or(true, |b| x < b) {
                    best = Some(x);
                }
            }
            match best {
                None => break,
                Some(b) => {
                    keys.push(b);
                    last = Some(b);
                }
            }
        }
        // open outcome: the order in which the distinct values are listed
        if let Some(p) = sched::choose_perm(sched::SPARSE_KEYS, keys.len(), None) {
            let old = keys.clone();
            for (i, k) in old.iter().enumerate() {
                keys[p[i]] = *k;
            }
            sched::note_effective(sched::SPARSE_KEYS);
        }
        let mut counts = Vec::with_capacity(keys.len());
        for k in &keys {
            let mut c = 0;
            for x in &self.0 {
                if x == k {
                    c += 1;
                }
            }
            counts.push(c);
        }
        (SimArray(keys), SimArray(counts))
    }
    fn zero(&self) -> SimArray<usize> {
        launch(P_ZERO, self.0.len());
        let mut v = Vec::new();
        for j in 0..self.0.len() {
            if self.0[j] == 0 {
                v.push(j);
            }
        }
        SimArray(v)
    }
    fn scatter_sub_assign(&mut self, ixs: &SimArray<usize>, rhs: &SimArray<usize>) {
        launch(P_SUBASSIGN, ixs.0.len());
        contract(ixs.0.len() == rhs.0.len(), "scatter_sub_assign: length mismatch");
        for j in 0..ixs.0.len() {
            let i = ixs.0[j];
            contract(i < self.0.len(), "scatter_sub_assign: index out of range");
            // native subtraction: panics on underflow in checked builds and wraps in unchecked
            // ones, exactly like the shipped backend
            self.0[i] -= rhs.0[j];
        }
    }
}
