//! Reference graph routines on the plain model (explicit loops; definitions, not algorithms
//! shared with the library).

use crate::plain::{edge, Plain, L};
use crate::rng::Rng;

/// dep[x] = operations y (deduplicated) that depend on x: some target node of x is a source node of y
pub fn op_successors(p: &Plain) -> Vec<Vec<usize>> {
    let m = p.e.len();
    let mut out = vec![vec![]; m];
    for x in 0..m {
        for y in 0..m {
            if p.e[x].t.iter().any(|v| p.e[y].s.contains(v)) {
                out[x].push(y);
            }
        }
    }
    out
}

/// visited[x] = x is neither on nor downstream of a dependency cycle (what survives repeated
/// removal of operations without unremoved predecessors)
pub fn op_visited(p: &Plain) -> Vec<bool> {
    let m = p.e.len();
    let succ = op_successors(p);
    let mut removed = vec![false; m];
    loop {
        let mut progress = false;
        for y in 0..m {
            if removed[y] {
                continue;
            }
            let blocked = (0..m).any(|x| !removed[x] && succ[x].contains(&y));
            if !blocked {
                removed[y] = true;
                progress = true;
            }
        }
        if !progress {
            break;
        }
    }
    removed
}

/// length (in operations) of the longest dependency chain among visited operations, and the
/// longest-path depth of each visited operation
pub fn op_depths(p: &Plain, visited: &[bool]) -> (usize, Vec<usize>) {
    let m = p.e.len();
    let succ = op_successors(p);
    let mut depth = vec![0usize; m];
    // relax m times (visited part is acyclic)
    for _ in 0..m {
        for x in 0..m {
            if !visited[x] {
                continue;
            }
            for &y in &succ[x] {
                if visited[y] && depth[y] < depth[x] + 1 {
                    depth[y] = depth[x] + 1;
                }
            }
        }
    }
    let longest = (0..m).filter(|x| visited[*x]).map(|x| depth[x] + 1).max().unwrap_or(0);
    (longest, depth)
}

pub fn has_op_cycle(p: &Plain) -> bool {
    op_visited(p).iter().any(|v| !*v)
}

/// node digraph: u -> v iff some hyperedge has u among its sources and v among its targets
pub fn node_successors(p: &Plain) -> Vec<Vec<usize>> {
    let n = p.w.len();
    let mut out = vec![vec![]; n];
    for e in &p.e {
        for &u in &e.s {
            for &v in &e.t {
                if !out[u].contains(&v) {
                    out[u].push(v);
                }
            }
        }
    }
    out
}

/// reach[u][v] = there is a path of length >= 1 from u to v
pub fn reach_plus(succ: &[Vec<usize>]) -> Vec<Vec<bool>> {
    let n = succ.len();
    let mut r = vec![vec![false; n]; n];
    for u in 0..n {
        // depth-first search from u
        let mut stack: Vec<usize> = succ[u].clone();
        while let Some(v) = stack.pop() {
            if !r[u][v] {
                r[u][v] = true;
                for &w in &succ[v] {
                    if !r[u][w] {
                        stack.push(w);
                    }
                }
            }
        }
    }
    r
}

/// true iff no node can reach itself following hyperedges from a source node to a target node
pub fn node_acyclic(p: &Plain) -> bool {
    let r = reach_plus(&node_successors(p));
    (0..p.w.len()).all(|v| !r[v][v])
}

pub fn in_degree(p: &Plain, v: usize) -> usize {
    p.e.iter().map(|e| e.t.iter().filter(|x| **x == v).count()).sum()
}
pub fn out_degree(p: &Plain, v: usize) -> usize {
    p.e.iter().map(|e| e.s.iter().filter(|x| **x == v).count()).sum()
}
fn count(v: &[usize], x: usize) -> usize {
    v.iter().filter(|y| **y == x).count()
}
/// both interface maps injective; every node: in-degree + (times it is an input) = 1 and
/// out-degree + (times it is an output) = 1
pub fn monogamous(p: &Plain) -> bool {
    (0..p.w.len()).all(|v| {
        count(&p.s, v) <= 1 && count(&p.t, v) <= 1 && in_degree(p, v) + count(&p.s, v) == 1 && out_degree(p, v) + count(&p.t, v) == 1
    })
}

// ----------------------------------------------------------------------------- generators

/// dense small multigraph-like diagrams: few nodes, several operations, repeated incidences,
/// parallel dependencies of multiplicity up to 5-6, self-dependence, zero arity
pub fn gen_dense(r: &mut Rng, big: bool) -> Plain {
    // unusually large instances at a low rate
    let huge = r.chance(1, if big { 20 } else { 150 });
    // a quarter of those go past the usual power-of-two thresholds
    let giant = huge && r.chance(1, 4);
    let n = if giant { *r.pick(&[70, 140, 300]) } else if huge { r.range(8, 40) } else { r.range(1, if big { 7 } else { 5 }) };
    let m = if giant { *r.pick(&[40, 70, 140, 280]) } else if huge { r.range(6, 24) } else { r.range(0, if big { 7 } else { 5 }) };
    let max_ar = r.range(1, if big || huge { 6 } else { 4 });
    let labels = r.range(1, 3);
    let w: Vec<L> = (0..n).map(|_| r.below(labels) as L).collect();
    let mut e = vec![];
    for _ in 0..m {
        let side = |r: &mut Rng| -> Vec<usize> {
            if r.chance(1, 8) {
                return vec![];
            }
            let k = r.range(1, max_ar);
            if r.chance(1, 3) {
                // the same node several times (parallel connections)
                let v = r.below(n);
                vec![v; k]
            } else {
                (0..k).map(|_| r.below(n)).collect()
            }
        };
        let s = side(r);
        let t = side(r);
        e.push(edge(r.below(3) as L, s, t));
    }
    let s: Vec<usize> = (0..r.below(4)).map(|_| r.below(n)).collect();
    let t: Vec<usize> = (0..r.below(4)).map(|_| r.below(n)).collect();
    Plain { w, e, s, t }
}

/// constructively acyclic operation structure (topological wiring, unbalanced depths, fan-out,
/// parallel wires), then optionally one back connection (a cycle with a tail downstream), then a
/// random renumbering of nodes and operations
pub fn gen_layered(r: &mut Rng, big: bool) -> Plain {
    let huge = r.chance(1, if big { 20 } else { 150 });
    let giant = huge && r.chance(1, 4);
    let m = if giant { *r.pick(&[70, 140, 280]) } else if huge { r.range(8, 30) } else { r.range(0, if big { 8 } else { 5 }) };
    let mut w: Vec<L> = vec![];
    let mut used_as_source: Vec<bool> = vec![];
    let mut e = vec![];
    let n_in = r.range(0, 3);
    for _ in 0..n_in {
        w.push(0);
        used_as_source.push(false);
    }
    for _ in 0..m {
        let n = w.len();
        let ks = if n == 0 { 0 } else { r.range(0, 4) };
        let mut s: Vec<usize> = vec![];
        for _ in 0..ks {
            if !s.is_empty() && r.chance(1, 3) {
                let v = *r.pick(&s);
                s.push(v); // parallel wire
            } else if r.chance(1, 2) && n > 0 {
                // prefer recent nodes: deep chains
                s.push(n - 1 - r.below(n.min(3)));
            } else {
                s.push(r.below(n));
            }
        }
        for &v in &s {
            used_as_source[v] = true;
        }
        let kt = r.range(0, 3);
        let mut t = vec![];
        for _ in 0..kt {
            let free: Vec<usize> = (0..w.len()).filter(|v| !used_as_source[*v]).collect();
            if !free.is_empty() && r.chance(1, 5) {
                t.push(*r.pick(&free)); // a second writer of an unread node: still acyclic
            } else {
                w.push(0);
                used_as_source.push(false);
                t.push(w.len() - 1);
            }
        }
        e.push(edge(r.below(3) as L, s, t));
    }
    let n = w.len();
    // a back connection: some earlier operation reads a node written by a later one
    if e.len() >= 2 && r.chance(1, 4) {
        let late = r.range(1, e.len() - 1);
        let early = r.below(late + 1); // early == late gives self-dependence
        if let Some(&v) = e[late].t.first() {
            e[early].s.push(v);
        }
    }
    let s: Vec<usize> = (0..n_in.min(n)).collect();
    let t: Vec<usize> = if n == 0 { vec![] } else { (0..r.below(3)).map(|_| r.below(n)).collect() };
    Plain { w, e, s, t }.random_renumbering(r)
}

pub fn launch_budget(p: &Plain) -> u64 {
    2000 * (p.w.len() + p.e.len() + p.s.len() + p.t.len() + 8) as u64
}
